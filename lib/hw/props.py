"""Per-property checks.  Each function takes a Ctx, runs the proof audit, the correspondence and the
implementation-only oracle, and records violations (DESIGN.md section 5/6)."""
import os
import re

from . import common as C
from . import gen as G
from .check import Ctx, audit_proofs, shrink
from .common import History, Rng, hexs, log

DIGEST = ("D64", "D128", "D256")
X86_BACKENDS = ("P", "S", "A", "D")


# ---------------------------------------------------------------------------------------------
def get_impl(ctx, name):
    for i in ctx.impls:
        if i.name == name:
            return i
    i = C.build_harness(name)
    ctx.impls.append(i)
    return i


def ensure_model(ctx):
    ok, out = C.build_driver()
    if not ok:
        raise C.BuildError("model build failed:\n" + out[-4000:])


def ctor(backend, reg, key, force_ok=True):
    """script line constructing backend in reg; S/A use the unsafe force_new (the host supports both)"""
    op = "fnew" if backend in ("S", "A") else "new"
    return "%s %d %s %s" % (op, reg, backend, G.keystr(key))


def restore_op(backend):
    return "frestorefrom" if backend in ("S", "A") else "restorefrom"


def run_dynamic(ctx, impl, hists, oracle, keep, use_model=True, addr=0, label=""):
    """Run on implementation (and model); apply the implementation-only oracle to every history.
    Returns (oracle_failures [(hist, msg)], mismatches [(hist, diff)], impl transcripts)."""
    hists = list(hists)
    if not hists:
        return [], [], {}
    itr, crashed = C.impl_run(impl, hists)
    mtr = C.model_run(hists, impl.profile(), impl.cfg_string(), addr) if use_model else None
    fails, mism = [], []
    for h in hists:
        il = itr.get(h.hid, ["MISSING"])
        ctx.note_case(h, nontrivial=h.meta.get("nontrivial", True))
        if il and il[-1].startswith("CRASH"):
            fails.append((h, "the process died (%s) while running this history" % il[-1]))
            continue
        msg = oracle(h, il)
        if msg:
            fails.append((h, msg))
        if use_model:
            a = C.filter_lines(il, keep)
            b = C.filter_lines(mtr.get(h.hid, ["MISSING"]), keep)
            if a != b:
                d = C.first_diff(a, b)
                mism.append((h, "line %d: implementation `%s` / model `%s`" % d))
    ctx.count("histories[%s%s]" % (impl.name, label), len(hists))
    if os.environ.get("HW_SHRINK_SELFTEST") and not fails:
        shrink_selftest(ctx, impl, hists, oracle)
    return fails, mism, itr


def model_guard(impl, oracle, addr, h0):
    """Soundness of shrinking.  An oracle is written for histories of the shape its generator produces; a shrink candidate
    (a line dropped, an argument shortened) may leave that shape, and the oracle could then condemn a script that 'fails' on
    correct code too.  The model is proved to satisfy the properties, so a candidate is accepted only if the oracle, applied
    to the MODEL's transcript of the same candidate, finds nothing wrong: whatever it then reports on the implementation's
    transcript is a difference between the implementation and a correct behaviour, not an artefact of the script.
    (If the oracle reads lines only the implementation prints — ALLOC — it condemns the model's transcript of the original
    history as well; the guard is then off and the oracle is relied on alone; the self-test below measures that case.)"""
    def model_ok(c):
        try:
            mt = C.model_run([c], impl.profile(), impl.cfg_string(), addr).get(c.hid, [])
            return bool(mt) and not any(l.startswith("ILL") for l in mt) and oracle(c, mt) is None
        except Exception:
            return False
    probe = History(h0.hid + 300000000, list(h0.lines), dict(h0.meta))
    if not model_ok(probe):
        return lambda c: True
    return model_ok


def shrink_selftest(ctx, impl, hists, oracle, per=int(os.environ.get("HW_SHRINK_SELFTEST_N", "40"))):
    """Self-test of the machinery (not a property check): on a tree where every generated history passes, every candidate
    the shrinker could propose (one line dropped, one data argument shortened / zeroed) must get NO failing verdict from
    the oracle — otherwise a replay produced by shrinking could be a script that 'fails' on correct code."""
    DATA = ("append", "write", "hwrite", "writeall", "iocopy", "hash64", "hash128", "hash256")
    cands = []
    step = max(1, len(hists) // per)
    for h in hists[::step][:per]:
        for i in range(len(h.lines)):
            c = h.lines[:i] + h.lines[i + 1:]
            if c:
                cands.append(c)
            t = h.lines[i].split()
            if t and t[0] in DATA and len(t) > 2 and t[2] != "-":
                d = t[2]
                for nd in (d[: (len(d) // 4) * 2], d[: len(d) - 2], "00" * (len(d) // 2)):
                    if nd != d:
                        c = list(h.lines)
                        c[i] = " ".join(t[:2] + [nd or "-"] + t[3:])
                        cands.append(c)
    hs = [History(200000000 + k, c, {}) for k, c in enumerate(cands)]
    tr, _ = C.impl_run(impl, hs)
    bad = 0
    guard = model_guard(impl, oracle, 0, hists[0])
    for c in hs:
        il = tr.get(c.hid, [])
        if any(l.startswith("ILL") for l in il) or (il and il[-1].startswith("CRASH")) or not il:
            continue
        try:
            msg = oracle(c, il)
        except Exception:
            msg = None
        if msg and guard(c):
            bad += 1
            if bad <= 3:
                log("SHRINK-SELFTEST %s: oracle condemns a shrink candidate on a passing tree: %s\n  %s" % (ctx.pid, msg, "\n  ".join(c.lines)))
    log("SHRINK-SELFTEST %s[%s]: %d candidates, %d condemned" % (ctx.pid, impl.name, len(hs), bad))


def report(ctx, impl, fails, mism, oracle, keep, what, max_report=1, addr=0):
    """Turn oracle failures / correspondence mismatches into violations (with shrunk replays)."""
    for h, msg in fails[:max_report]:
        guard = model_guard(impl, oracle, addr, h)

        def still_fails(c, guard=guard):
            tr, _ = C.impl_run(impl, [c])
            il = tr.get(c.hid, [])
            if il and il[-1].startswith("CRASH"):
                return True
            if any(l.startswith("ILL") for l in il):
                return False
            return oracle(c, il) is not None and guard(c)
        small = shrink(h, still_fails) if "died" not in msg else h
        tr, _ = C.impl_run(impl, [small])
        ctx.violation("%s: %s" % (what, oracle(small, tr.get(small.hid, [])) or msg), small, impl.name,
                      extra_lines=["implementation transcript:"] + tr.get(small.hid, []))
    if not fails and mism:
        h, d = mism[0]

        def still_differs(c):
            tr, _ = C.impl_run(impl, [c])
            il = tr.get(c.hid, [])
            if any(l.startswith("ILL") for l in il):
                return False
            mt = C.model_run([c], impl.profile(), impl.cfg_string(), addr)
            return C.filter_lines(il, keep) != C.filter_lines(mt.get(c.hid, []), keep)
        small = shrink(h, still_differs, budget=40)
        tr, _ = C.impl_run(impl, [small])
        mt = C.model_run([small], impl.profile(), impl.cfg_string(), addr)
        ctx.violation("correspondence model/implementation no longer holds for %s (%d of the generated histories "
                      "differ; first: %s); the property's oracle found no failing input" % (what, len(mism), d),
                      small, impl.name, no_input=True, tag="corr",
                      extra_lines=["implementation transcript:"] + tr.get(small.hid, []) +
                                  ["model transcript:"] + mt.get(small.hid, []))


def proof_gate(ctx, prop_file, theorems):
    """Proof audit. A failure is reported after the dynamic search (no-failing-input-found unless the
    search finds an input)."""
    if not os.path.exists(os.path.join(C.COQ, prop_file)):
        ctx.proof["ok"] = None
        return True
    from . import facts
    facts.regen()          # gen/*.v are part of the Coq project: regenerate them from /repo first
    ok = audit_proofs(ctx, prop_file, theorems)
    if not ok:
        log("proof audit failed at %s\n%s" % (ctx.proof.get("failed_at"), ctx.proof["log"][-1500:]))
    return ok


def proof_verdict(ctx, ok):
    if not ok and not ctx.violations:
        ctx.violation("proof obligation no longer checks: %s\n%s" % (ctx.proof.get("failed_at"), ctx.proof["log"][-1200:]),
                      None, no_input=True, tag="proof")


def corpus_hists(pid, start_id=900000):
    out = []
    d = os.path.join(C.CORPUS, pid)
    if not os.path.isdir(d):
        return out
    for i, fn in enumerate(sorted(os.listdir(d))):
        if not fn.endswith(".hw"):
            continue
        lines = [l.rstrip("\n") for l in open(os.path.join(d, fn)) if l.strip() and not l.startswith("#") and not l.startswith("H ")]
        out.append(History(start_id + i, lines, {"corpus": fn}))
    return out


def digests(lines):
    return [l for l in lines if l.split(" ", 1)[0] in DIGEST or l.startswith("FIN ")]


def has_panic(lines):
    return any(l in ("PANIC",) or l.startswith("CRASH") for l in lines)


# ---------------------------------------------------------------------------------------------
# C01  portable = HighwayHash specification
def c01(ctx):
    ctx.nontrivial_rule = ("one history = new PortableHash(key); hash<w>(data) (and append+finalize); non-trivial = "
                           "distinct script; lengths 0..130 exhaustively x byte patterns {uniform, >=0x80, 00, ff, counting, "
                           "one-hot}, larger lengths, keys {zero, reference, ones, one-hot, high-bit, random}, all widths. "
                           "Oracle: Spec.HH extracted from Coq (pinned by the published vectors).")
    ok = proof_gate(ctx, "theories/Properties/C01.v", ["C01_portable_is_highwayhash", "C01_run", "C01_pure_function"])
    ensure_model(ctx)
    rng = Rng(ctx.seed).fork("C01")
    cases = []   # (width, key, data)
    lens = list(G.LENS_SMALL) + G.LENS_MED + (G.LENS_BIG + [(1 << 20) + 7] if ctx.tier == "thorough" else [4097, 8191, 8192, 8193, 65535, 65536, 65537])
    for n in lens:
        for mode in (0, 1, 2, 3, 4):
            if n > 300 and mode in (2, 3):
                continue
            if n > 5000 and mode != 1:
                continue
            w = G.WIDTHS[(n + mode) % 3]
            cases.append((w, G.rand_key(rng) if mode < 2 else G.REF_KEY, rng.bytes(n, mode)))
    for n in range(1, 33):                       # one hot byte at each position of each remainder class
        for pos in (0, n // 2, n - 1):
            cases.append((G.WIDTHS[(n + pos) % 3], G.DOC_KEY, G.hot_byte(n, pos, 0x80 | (pos & 0x7F))))
    for i in range(64 if ctx.tier == "quick" else 256):   # one-hot keys
        k = [0, 0, 0, 0]
        k[(i * 4) % 256 // 64] = 1 << ((i * 4 + i // 64) % 64)
        cases.append((G.WIDTHS[i % 3], tuple(k), rng.bytes(rng.below(70), 1)))
    for lane in range(4):                        # carry boundaries of the length injection / rotation, per lane
        for e in G.EDGE_LANES:
            for target in (0, 1):
                k = [rng.next() for _ in range(4)]
                k[lane] = (G.INIT0[lane] ^ e) if target == 0 else G.rot32(G.INIT1[lane] ^ e)
                n = 1 + rng.below(31)
                cases.append((G.WIDTHS[(lane + n) % 3], tuple(k), rng.bytes(n, rng.below(2))))
    reps = 300 if ctx.tier == "quick" else 20000
    for i in range(reps):
        n = rng.choice(G.LENS_SMALL + [rng.below(700)])
        cases.append((rng.choice(G.WIDTHS), G.rand_key(rng), G.rand_data(rng, n)))
    hists = []
    for i, (w, k, d) in enumerate(cases):
        if i % 2 == 0:
            lines = ["new 0 P %s" % G.keystr(k), "hash%s 0 %s" % (w, hexs(d))]
        else:
            lines = ["new 0 P %s" % G.keystr(k), "append 0 %s" % hexs(d), "fin%s 0" % w]
        hists.append(History(i, lines, {"len": len(d), "w": w}))
        ctx.count("len%%32=%d" % (len(d) % 32))
        ctx.count("packets=%s" % ("0" if len(d) < 32 else "1" if len(d) < 64 else "2+"))
    spec = C.spec_run([(int(w), k, d) for (w, k, d) in cases])
    spec_by = {i: spec[i] for i in range(len(cases))}

    def oracle(h, il):
        want = spec_by.get(h.hid)
        if want is None:       # shrunk candidate: recompute
            if not h.lines[0].startswith("new") or not h.lines[-1].startswith(("hash", "fin")):
                return None
            k = tuple(int(x, 16) for x in h.lines[0].split()[3:7])
            t = h.lines[-1].split()
            if t[0].startswith("hash"):
                d = bytes.fromhex(t[2]) if t[2] != "-" else b""
                w = t[0][4:]
            else:
                a = [l.split() for l in h.lines if l.startswith("append")]
                d = b"".join(bytes.fromhex(x[2]) if x[2] != "-" else b"" for x in a)
                w = t[0][3:]
            want = C.spec_run([(int(w), k, d)])[0]
        got = digests(il)
        if got != [want]:
            return "portable digest %s differs from the HighwayHash specification %s" % (got, want)
        return None

    for name in (("dev", "release")):
        impl = get_impl(ctx, name)
        fails, mism, _ = run_dynamic(ctx, impl, corpus_hists("C01") + hists, oracle, DIGEST + ("PANIC", "FAULT"))
        report(ctx, impl, fails, mism, oracle, DIGEST + ("PANIC", "FAULT"), "PortableHash vs Spec.HH")
    # "for every key and byte string" is a statement about the function, not about this host: the same real code
    # on a big-endian 64-bit and a little-endian 32-bit target (Miri) must also equal the specification
    from . import miri
    step = 40 if ctx.tier == "quick" else 8
    sub = [h for h in hists if h.meta["len"] <= 70 and (h.hid % step == 0 or h.meta["len"] in (7, 8, 9, 31, 32, 33))][:80 if ctx.tier == "quick" else 600]
    for target in ("s390x-unknown-linux-gnu", "i686-unknown-linux-gnu"):
        itr, problems = miri.std_run(target, sub)
        miri.compare(ctx, target, miri.STD_TARGETS[target], sub, itr, problems, oracle, DIGEST + ("PANIC", "FAULT"),
                     "PortableHash vs Spec.HH")
    # translator tie: the kernel functions of src/portable.rs, re-translated from the source text just now, mean what the model says
    facts_gate(ctx, "C01")
    proof_verdict(ctx, ok)


# ---------------------------------------------------------------------------------------------
# C05  streaming invariance
def c05(ctx):
    ctx.nontrivial_rule = ("one history = the same bytes fed to register 0 in chunks (append / write / hwrite / write_all / "
                           "io::copy) and to register 1 by the one-shot helper, same backend and key, then the digests of both; "
                           "exhaustive two-step skeleton: buffer fill 0..31 x next chunk length 0..97, all four x86 hasher types, "
                           "plus random k-partitions with empty chunks; non-trivial = distinct script with >= 1 non-empty chunk")
    ok = proof_gate(ctx, "theories/Properties/C05.v", ["C05_streaming_invariance", "C05_from_any_state", "C05_entry_points"])
    ensure_model(ctx)
    rng = Rng(ctx.seed).fork("C05")
    hists = []
    hid = 0
    base = rng.bytes(200, 1)
    for b in X86_BACKENDS:
        for f in range(32):
            for c in range(98):
                if ctx.tier == "quick" and b != "P" and (f * 98 + c) % 3 != (ord(b) % 3):
                    continue
                key = G.DOC_KEY
                w = G.WIDTHS[(f + c) % 3]
                d = base[:f + c]
                op = G.FEED_OPS_STD[(f + c + hid) % len(G.FEED_OPS_STD)]
                if (f * 7 + c) % 5 == 0:
                    # the one-shot helper itself as the last feeding step, on a hasher that already holds f bytes
                    lines = [ctor(b, 0, key), ctor(b, 1, key), "append 0 %s" % hexs(d[:f]),
                             "hash%s 0 %s" % (w, hexs(d[f:])), "hash%s 1 %s" % (w, hexs(d))]
                else:
                    lines = [ctor(b, 0, key), ctor(b, 1, key),
                             "append 0 %s" % hexs(d[:f]), "%s 0 %s" % (op, hexs(d[f:])),
                             "fin%s 0" % w, "hash%s 1 %s" % (w, hexs(d))]
                hists.append(History(hid, lines, {"fill": f, "chunk": c, "backend": b, "nontrivial": f + c > 0}))
                hid += 1
    nrand = 600 if ctx.tier == "quick" else 40000
    for i in range(nrand):
        b = rng.choice(X86_BACKENDS)
        key = G.rand_key(rng)
        n = rng.choice(G.LENS_SMALL + G.LENS_MED) if rng.below(8) else rng.below(3000)
        d = G.rand_data(rng, n)
        chunks = G.partition(rng, d, maxchunks=2 + rng.below(8))
        w = rng.choice(G.WIDTHS)
        if i % 4 == 0 and chunks:
            lines = [ctor(b, 0, key), ctor(b, 1, key)] + G.feed_lines(rng, 0, chunks[:-1]) + \
                    ["hash%s 0 %s" % (w, hexs(chunks[-1])), "hash%s 1 %s" % (w, hexs(d))]
        else:
            lines = [ctor(b, 0, key), ctor(b, 1, key)] + G.feed_lines(rng, 0, chunks) + ["fin%s 0" % w, "hash%s 1 %s" % (w, hexs(d))]
        hists.append(History(hid, lines, {"backend": b, "chunks": len(chunks), "nontrivial": n > 0}))
        ctx.count("chunks=%d" % min(len(chunks), 9))
        hid += 1
    for n in ([8193, 65537] if ctx.tier == "quick" else [8191, 8192, 8193, 65535, 65536, 65537, (1 << 20) + 1]):   # large chunks, every entry point
        for k, op in enumerate(G.FEED_OPS_STD[1:]):
            b = X86_BACKENDS[(k + n) % 4]
            d = rng.bytes(n + 45, 0)
            w = G.WIDTHS[k % 3]
            lines = [ctor(b, 0, G.DOC_KEY), ctor(b, 1, G.DOC_KEY), "append 0 %s" % hexs(d[:17]), "%s 0 %s" % (op, hexs(d[17:17 + n])),
                     "append 0 %s" % hexs(d[17 + n:]), "fin%s 0" % w, "hash%s 1 %s" % (w, hexs(d))]
            hists.append(History(hid, lines, {"backend": b, "big": n}))
            hid += 1
    for i in range(20 if ctx.tier == "quick" else 400):     # all-singletons
        b = X86_BACKENDS[i % 4]
        n = 1 + rng.below(100)
        d = G.rand_data(rng, n)
        lines = [ctor(b, 0, G.REF_KEY), ctor(b, 1, G.REF_KEY)] + ["append 0 %02x" % x for x in d] + ["fin64 0", "hash64 1 %s" % hexs(d)]
        hists.append(History(hid, lines, {"backend": b, "singletons": n}))
        hid += 1

    def oracle(h, il):
        ds = digests(il)
        if has_panic(il):
            return "panic"
        if sum(1 for l in h.lines if l.startswith(("fin", "hash"))) != 2:
            return None
        if len(ds) != 2 or ds[0] != ds[1]:
            return "chunked feeding gives %s but the one-shot helper gives %s" % (ds[:1], ds[1:])
        return None

    keep = DIGEST + ("PANIC", "FAULT", "W")
    for name in ("dev", "release"):
        impl = get_impl(ctx, name)
        fails, mism, _ = run_dynamic(ctx, impl, corpus_hists("C05") + hists, oracle, keep)
        report(ctx, impl, fails, mism, oracle, keep, "streaming invariance (chunked vs one-shot)")
    # the same law for the real portable code on a big-endian target
    from . import miri
    rng = Rng(ctx.seed).fork("C05be")
    be = []
    for hid, n in enumerate([0, 1, 5, 31, 32, 33, 40, 63, 64, 65, 70, 96, 97, 128, 129, 160, 200]):
        for k in range(2):
            d = rng.bytes(n, 1)
            key = G.rand_key(rng)
            w = G.WIDTHS[(hid + k) % 3]
            b = "PD"[k]
            parts = G.partition(rng, d, 1 + rng.below(5))
            lines = ["new 0 %s %s" % (b, G.keystr(key)), "new 1 %s %s" % (b, G.keystr(key))] + ["append 0 %s" % hexs(c) for c in parts] + \
                    ["fin%s 0" % w, "hash%s 1 %s" % (w, hexs(d))]
            be.append(History(2 * hid + k, lines, {"len": n}))
    miri.other_targets(ctx, be, oracle, keep, "streaming invariance")
    miri.simd_backends(ctx)     # "for all backends" includes NeonHash and WasmHash: the real aarch64.rs / wasm.rs under Miri
    facts_gate(ctx, "C05")     # translator tie: the source functions this property rests on are the model
    proof_verdict(ctx, ok)



# ---------------------------------------------------------------------------------------------
def feed_ops_for(impl):
    return G.FEED_OPS_STD if impl.info.get("std") == "1" else G.FEED_OPS_NOSTD


def all_equal(xs):
    return all(x == xs[0] for x in xs)


def lines_of(il, kinds):
    return [l for l in il if l.split(" ", 1)[0] in kinds]


def multi_dynamic(ctx, names, make_hists, oracle, keep, what, corpus_pid=None):
    """Run the same generator/oracle over several build configurations."""
    for name in names:
        impl = get_impl(ctx, name)
        hists = make_hists(impl)
        if corpus_pid:
            hists = corpus_hists(corpus_pid) + hists
        fails, mism, _ = run_dynamic(ctx, impl, hists, oracle, keep)
        report(ctx, impl, fails, mism, oracle, keep, what)
        if name not in C.PERSISTENT:
            impl.cleanup()


QUICK_CONFIGS = ("dev", "release", "release-avx2", "release-nostd-sse41", "release-native")
ALL_CONFIGS = tuple(C.CONFIGS.keys())


INTRINSICS = {   # name -> number of u64 operand words
    "mm_add_epi64": 4, "mm_mul_epu32": 4, "mm_andnot_si128": 4, "mm_srli_epi64_32": 2, "mm_srli_epi64_62": 2, "mm_srli_epi64_63": 2,
    "mm_shuffle_epi32_b1": 2, "mm_shuffle_epi8": 4, "mm_insert_epi32_3": 3, "mm_slli_si128_8": 2, "mm_sll_epi32": 4, "mm_srl_epi32": 4,
    "mm_cmpgt_epi32": 4, "mm_set1_epi32": 1, "mm_cvtsi64_si128": 1, "mm_maskload_epi32": 4,
    "mm256_add_epi64": 8, "mm256_mul_epu32": 8, "mm256_andnot_si256": 8, "mm256_shuffle_epi8": 8, "mm256_shuffle_epi32_b1": 4,
    "mm256_permutevar8x32_epi32": 8, "mm256_sllv_epi32": 8, "mm256_srlv_epi32": 8, "mm256_sub_epi32": 8, "mm256_unpacklo_epi64": 8,
    "mm256_cmpeq_epi64": 8, "mm256_srli_epi64_32": 4, "mm256_srli_epi64_62": 4, "mm256_srli_epi64_63": 4, "mm256_slli_epi64_63": 4,
    "mm256_slli_si256_8": 4, "mm256_broadcastd_epi32": 2,
}


def intrinsic_crosscheck(ctx, impl, per=60):
    """the model's definition of every x86 intrinsic the crate uses vs the real instruction, operand by operand"""
    rng = Rng(ctx.seed).fork("intrin")
    edge = G.EDGE_LANES + [0x0000001F0000001F, 0x0000002000000020, 0x0000002100000021, 0x8080808080808080, 0x0F0E0D0C0B0A0908, 31, 32, 33, 63, 64]
    lines = []
    for name, n in INTRINSICS.items():
        for k in range(per):
            ops = []
            for j in range(n):
                m = rng.below(4)
                if m == 0:
                    ops.append(rng.choice(edge))
                elif m == 1 and ("sll" in name or "srl" in name) and j >= n // 2:
                    ops.append(rng.below(40) | (rng.below(40) << 32))          # shift counts around the lane width
                elif m == 2 and ("shuffle_epi8" in name or "permutevar" in name) and j >= n // 2:
                    ops.append(int.from_bytes(bytes(rng.below(256) if rng.below(4) == 0 else rng.below(16) for _ in range(8)), "little"))
                else:
                    ops.append(rng.next())
            lines.append("%s %s" % (name, " ".join("%x" % x for x in ops)))
    text = "\n".join(lines) + "\n"
    p = C._write_tmp(text, ".intrin")
    try:
        rc1, real = C.sh([impl.path, "intrin", p], timeout=300)
        rc2, model = C.sh([os.path.join(C.OCAML, "driver"), "intrin", p], timeout=300)
    finally:
        os.unlink(p)
    rl, ml = real.splitlines(), model.splitlines()
    ctx.count("intrinsic operand sets", len(lines))
    ctx.extra["intrinsics_crosschecked"] = sorted(INTRINSICS)
    if rc1 != 0 or rc2 != 0 or len(rl) != len(lines) or len(ml) != len(lines):
        ctx.violation("intrinsic cross-check could not run (rc %d/%d, %d/%d/%d lines)\n%s" % (rc1, rc2, len(lines), len(rl), len(ml), (real + model)[-600:]),
                      None, no_input=True, tag="intrin")
        return
    for src, a, b in zip(lines, rl, ml):
        ctx.evaluations += 1
        if a != b:
            ctx.violation("the model's semantics of an x86 intrinsic differs from the CPU: `%s` -> CPU `%s`, model `%s` "
                          "(a defect of the model, not of highway-rs: X86.v must be corrected)" % (src, a, b), None, no_input=True, tag="intrin")
            return


# C02  SSE / AVX / dispatcher = portable, in every build configuration
def c02(ctx):
    ctx.nontrivial_rule = ("one history = the same key and chunk list fed to PortableHash, SseHash, AvxHash, HighwayHasher and a "
                           "HighwayBuildHasher-built hasher, digests of all widths (via clones); oracle: every digest equals the "
                           "portable one of the REAL code; lengths 0..130 + larger, high-bit-heavy bytes, boundary keys; run in "
                           "several build configurations (quick: 4, thorough: all 20); non-trivial = distinct script")
    ok = proof_gate(ctx, "theories/Properties/C02.v",
                    ["C02_x86_backends_equal_portable", "C02_config_independent", "C02_safe_constructors"])
    ensure_model(ctx)
    seed_rng = Rng(ctx.seed).fork("C02")

    def make(impl):
        rng = seed_rng.fork(impl.name)
        ops = feed_ops_for(impl)
        hists = []
        lens = list(G.LENS_SMALL) + G.LENS_MED + ([4097, 8193, 65535, 65536, 65537, (1 << 20) + 33] if ctx.tier == "thorough" else [4097, 8193, 65537])
        cases = [(n, m) for n in lens for m in ((0, 1) if n < 5000 else (1,))] + [(rng.below(400), rng.below(5)) for _ in range(150 if ctx.tier == "quick" else 6000)]
        for hid, (n, mode) in enumerate(cases):
            key = G.rand_key(rng)
            d = rng.bytes(n, mode)
            chunks = [d] if hid % 3 == 0 else G.partition(rng, d, 2 + rng.below(5))
            lines = []
            for r, b in enumerate(("P", "S", "A", "D", "B")):
                lines.append(ctor(b, r, key))
                lines += G.feed_lines(rng.fork("f%d" % hid), r, chunks, ops)
                w = G.WIDTHS[(hid + r) % 3]
                lines += ["clone %d %d" % (10 + r, r), "fin64 %d" % (10 + r), "clone %d %d" % (20 + r, r), "fin128 %d" % (20 + r), "fin256 %d" % r]
            hists.append(History(hid, lines, {"len": n, "chunks": len(chunks)}))
            ctx.count("len%%32=%d" % (n % 32))
        # every remainder size x every 32-bit carry boundary of the length injection, per backend
        hid = len(hists)
        for n in range(1, 32):
            for t in range(4):
                key = G.boundary_key(rng)
                d = rng.bytes(n, 1)
                lines = []
                for r, b in enumerate(("P", "S", "A", "D")):
                    lines += [ctor(b, r, key), "append %d %s" % (r, hexs(d)), "fin%s %d" % (G.WIDTHS[(n + t) % 3], r)]
                hists.append(History(hid, lines, {"len": n, "boundary": True}))
                hid += 1
        return hists

    def oracle(h, il):
        if has_panic(il):
            return "panic"
        ds = digests(il)
        nb = sum(1 for l in h.lines if l.startswith(("new", "fnew")))
        if nb < 2 or len(ds) % nb != 0 or not ds:
            return None
        per = len(ds) // nb
        ref = ds[:per]
        for i in range(1, nb):
            if ds[i * per:(i + 1) * per] != ref:
                return "backend #%d digests %s differ from PortableHash's %s" % (i, ds[i * per:(i + 1) * per], ref)
        return None

    keep = DIGEST + ("PANIC", "FAULT", "W", "NONE")
    multi_dynamic(ctx, QUICK_CONFIGS if ctx.tier == "quick" else ALL_CONFIGS, make, oracle, keep,
                  "SSE/AVX/dispatcher vs portable", "C02")
    intrinsic_crosscheck(ctx, get_impl(ctx, "release"), per=60 if ctx.tier == "quick" else 3000)
    facts_gate(ctx, "C02")     # translator tie: the SSE / AVX kernels re-translated from the source just now are the models
    proof_verdict(ctx, ok)


# C06  checkpoint / restore transparent at every cut, across backends, any number of hops
def c06(ctx):
    ctx.nontrivial_rule = ("one history = new on backend X0, append a prefix, then 1-4 hops (checkpoint, restore on backend Xi, "
                           "append more, possibly in chunks), finalize; plus the uninterrupted PortableHash over all the bytes; "
                           "oracle: equal digests; every cut 0..len for several lengths x all 16 (source, target) pairs, "
                           "multi-hop chains, all widths; non-trivial = distinct script with a non-empty stream")
    ok = proof_gate(ctx, "theories/Properties/C06.v", ["C06_checkpoint_transparent", "C06_hops_total", "C06_codec_roundtrip"])
    ensure_model(ctx)
    seed_rng = Rng(ctx.seed).fork("C06")

    def make(impl):
        rng = seed_rng.fork(impl.name)
        ops = feed_ops_for(impl)
        hists = []
        hid = 0
        lens = (33, 64, 70, 97) if ctx.tier == "quick" else (1, 31, 32, 33, 63, 64, 65, 70, 97, 130)
        for n in lens:
            d = rng.bytes(n, 1)
            for cut in range(n + 1):
                pairs = [(a, b) for a in X86_BACKENDS for b in X86_BACKENDS]
                if ctx.tier == "quick":
                    pairs = [pairs[(cut * 5 + k * 7 + n) % 16] for k in range(4)]
                for (a, b) in pairs:
                    key = G.rand_key(rng)
                    w = G.WIDTHS[(cut + hid) % 3]
                    lines = [ctor(a, 0, key), "append 0 %s" % hexs(d[:cut]),
                             "%s 1 %s 0" % (restore_op(b), b), "append 1 %s" % hexs(d[cut:]), "fin%s 1" % w,
                             "new 9 P %s" % G.keystr(key), "hash%s 9 %s" % (w, hexs(d))]
                    hists.append(History(hid, lines, {"cut": cut, "pair": a + b, "nontrivial": n > 0}))
                    ctx.count("cut%%32=%d" % (cut % 32))
                    hid += 1
        for key in G.SPECIAL_KEYS:          # keys that make the whole initial v0 / v1 vector 0, all-ones, ... : cuts before and after the first packet
            for cut in (0, 1, 5, 16, 31, 32, 33, 64):
                a, b = rng.choice(X86_BACKENDS), rng.choice(X86_BACKENDS)
                d = rng.bytes(70, 1)
                w = G.WIDTHS[(cut + hid) % 3]
                lines = [ctor(a, 0, key), "append 0 %s" % hexs(d[:cut]), "%s 1 %s 0" % (restore_op(b), b), "append 1 %s" % hexs(d[cut:]),
                         "fin%s 1" % w, "new 9 P %s" % G.keystr(key), "hash%s 9 %s" % (w, hexs(d))]
                hists.append(History(hid, lines, {"cut": cut, "pair": a + b, "special_key": True}))
                hid += 1
        for i in range(300 if ctx.tier == "quick" else 20000):
            key = G.rand_key(rng)
            nh = 1 + rng.below(4)
            w = rng.choice(G.WIDTHS)
            b0 = rng.choice(X86_BACKENDS)
            lines = [ctor(b0, 0, key)]
            allb = b""
            reg = 0
            for hop in range(nh + 1):
                d = G.rand_data(rng, rng.choice(G.CHUNK_LENS + [rng.below(200)]))
                allb += d
                lines += G.feed_lines(rng, reg, G.partition(rng, d, 1 + rng.below(3)), ops)
                if hop < nh:
                    b = rng.choice(X86_BACKENDS)
                    lines.append("%s %d %s %d" % (restore_op(b), reg + 1, b, reg))
                    reg += 1
            lines += ["fin%s %d" % (w, reg), "new 99 P %s" % G.keystr(key), "hash%s 99 %s" % (w, hexs(allb))]
            hists.append(History(hid, lines, {"hops": nh, "nontrivial": len(allb) > 0}))
            ctx.count("hops=%d" % nh)
            hid += 1
        return hists

    def oracle(h, il):
        if has_panic(il):
            return "panic"
        ds = digests(il)
        if sum(1 for l in h.lines if l.startswith(("fin", "hash"))) != 2:
            return None
        if len(ds) != 2 or ds[0] != ds[1]:
            return "after checkpoint/restore hops the digest is %s but the uninterrupted hasher gives %s" % (ds[:1], ds[1:])
        return None

    keep = DIGEST + ("PANIC", "FAULT", "W", "NONE")
    multi_dynamic(ctx, ("dev", "release"), make, oracle, keep, "checkpoint/restore transparency", "C06")
    # the same law for the real portable code on a big-endian target (checkpoints written there must resume there, and are the
    # bytes a little-endian machine writes)
    from . import miri
    rng = seed_rng.fork("be")
    be = []
    for hid, (n, cut) in enumerate([(0, 0), (1, 1), (5, 0), (31, 31), (32, 32), (33, 1), (40, 17), (64, 33), (70, 64), (97, 50)] +
                                   [(70, c) for c in range(0, 71, 3)]):
        key = G.rand_key(rng)
        d = rng.bytes(n, 1)
        w = G.WIDTHS[hid % 3]
        a, b = (("P", "D"), ("D", "P"), ("P", "P"))[hid % 3]
        last = 1 + (hid // 3) % 2          # one hop or two (two byte-order slips in a writer/reader pair cancel over two hops)
        lines = ["new 0 %s %s" % (a, G.keystr(key)), "append 0 %s" % hexs(d[:cut]), "ckpt 0", "restorefrom 1 %s 0" % b] + \
                (["restorefrom 2 %s 1" % a] if last == 2 else []) + \
                ["append %d %s" % (last, hexs(d[cut:])), "ckpt %d" % last, "fin%s %d" % (w, last), "new 9 P %s" % G.keystr(key), "hash%s 9 %s" % (w, hexs(d))]
        be.append(History(hid, lines, {"cut": cut, "len": n}))
    miri.other_targets(ctx, be, oracle, keep + ("CK",), "checkpoint/restore transparency")
    miri.simd_backends(ctx)     # "for all backends" includes NeonHash and WasmHash: the real aarch64.rs / wasm.rs under Miri
    facts_gate(ctx, "C06")     # translator tie: the source functions this property rests on are the model
    proof_verdict(ctx, ok)


# C07  Default = zero-key hasher
def c07(ctx):
    ctx.nontrivial_rule = ("one history = T::default() and T::new(Key::default()) for T in {PortableHash, SseHash, AvxHash, "
                           "HighwayHasher, HighwayBuildHasher}, same chunk list, digests at all widths and checkpoints; oracle: "
                           "pairwise equal and equal to PortableHash::new(zero key); non-trivial = distinct script")
    ok = proof_gate(ctx, "theories/Properties/C07.v", ["C07_default_is_zero_key", "C07_default_hashes_with_zero_key", "C07_default_total"])
    ensure_model(ctx)
    seed_rng = Rng(ctx.seed).fork("C07")

    def make(impl):
        rng = seed_rng.fork(impl.name)
        ops = feed_ops_for(impl)
        hists = []
        for hid in range(260 if ctx.tier == "quick" else 8000):
            n = hid if hid < 131 else rng.below(600)
            d = G.rand_data(rng, n)
            chunks = G.partition(rng, d, 1 + rng.below(4))
            w = G.WIDTHS[hid % 3]
            lines = []
            for r, b in enumerate(("P", "S", "A", "D", "B")):
                lines += ["default %d %s" % (2 * r, b), ctor(b, 2 * r + 1, G.ZERO_KEY)]
                for rr in (2 * r, 2 * r + 1):
                    lines += G.feed_lines(rng.fork("x%d" % hid), rr, chunks, ops) + ["ckpt %d" % rr, "fin%s %d" % (w, rr)]
            hists.append(History(hid, lines, {"len": n}))
        return hists

    def oracle(h, il):
        if has_panic(il):
            return "panic"
        ds = digests(il)
        cks = lines_of(il, ("CK",))
        if len(ds) < 2 or len(ds) != sum(1 for l in h.lines if l.startswith("fin")):
            return None
        if not all_equal(ds):
            return "Default-constructed and zero-key hashers disagree: %s" % sorted(set(ds))
        if cks and not all_equal(cks):
            return "checkpoints of Default-constructed and zero-key hashers differ"
        return None

    keep = DIGEST + ("PANIC", "FAULT", "W", "NONE", "CK")
    # the no-std builds matter: there the checked constructors of SseHash / AvxHash decline, and Default must not depend on them
    multi_dynamic(ctx, QUICK_CONFIGS + ("dev-nostd",) if ctx.tier == "quick" else ALL_CONFIGS, make, oracle, keep, "Default vs new(Key::default())", "C07")
    facts_gate(ctx, "C07")
    proof_verdict(ctx, ok)


# positions of the register operands of each script operation (everything else is data, a backend letter, a key or a kind)
REG_POS = {"clone": (1, 2), "clonefrom": (1, 2), "restorefrom": (1, 3), "frestorefrom": (1, 3)}
INT_WIDTH = {"u8": 1, "u16": 2, "u32": 4, "u64": 8, "u128": 16, "usize": 8, "i8": 1, "i16": 2, "i32": 4, "i64": 8, "i128": 16, "isize": 8}
INT_KINDS = tuple(INT_WIDTH)


def random_history(rng, ops, nregs=3, maxops=14, blobs=True):
    """a random well-formed history over the whole operation language (x86 backends)"""
    lines = []
    live = []
    kind = {}

    def typ(b):
        return "D" if b == "B" else b
    for step in range(1 + rng.below(maxops)):
        if not live or rng.below(6) == 0:
            r = rng.below(nregs + 2)
            b = rng.choice(X86_BACKENDS + ("B",))
            m = rng.below(4)
            if m == 0 or b == "B":
                lines.append(ctor(b, r, G.rand_key(rng)) if m else "default %d %s" % (r, b))
            elif m == 1 and blobs:
                blob, _ = G.rand_blob(rng)
                lines.append("%s %d %s %s" % ("frestore" if b in ("S", "A") else "restore", r, b, blob.hex()))
            elif m == 2 and live:
                lines.append("%s %d %s %d" % (restore_op(b), r, b, rng.choice(live)))
            else:
                lines.append(ctor(b, r, G.rand_key(rng)))
            kind[r] = typ(b)
            if r not in live:
                live.append(r)
            continue
        r = rng.choice(live)
        m = rng.below(13)
        if m < 5:
            d = G.rand_data(rng, rng.choice(G.CHUNK_LENS + [rng.below(300)]))
            sub = rng.below(12)
            if sub == 0 and "write" in ops:
                # io::Write::write_vectored: a short header and a payload (sometimes larger than any small staging buffer)
                big = G.rand_data(rng, rng.choice([0, 3, 40, 1100, 1500]))
                lines.append("writev %d %s %s" % (r, hexs(d[:8]), hexs(big)))
            elif sub == 1:
                ik = rng.choice(INT_KINDS)
                lines.append("hwint %d %s %s" % (r, ik, hexs(G.rand_data(rng, INT_WIDTH[ik]))))
            else:
                lines.append("%s %d %s" % (rng.choice(ops), r, hexs(d)))
        elif m == 5:
            lines.append("finish %d" % r)
        elif m == 6:
            lines.append("ckpt %d" % r)
        elif m == 7:
            lines.append("debug %d" % r)
        elif m == 8:
            r2 = rng.below(nregs + 2)
            lines.append("clone %d %d" % (r2, r))
            kind[r2] = kind[r]
            if r2 not in live:
                live.append(r2)
        elif m == 9 and "write" in ops:
            lines.append("flush %d" % r)
        elif m == 10:
            lines.append("fin%s %d" % (rng.choice(G.WIDTHS), r))
            live.remove(r)
        elif m == 11:
            same = [x for x in live if x != r and kind.get(x) == kind.get(r)]
            if same:
                lines.append("clonefrom %d %d" % (r, rng.choice(same)))     # reg[r].clone_from(&reg[other])
            else:
                lines.append("ckpt %d" % r)
        else:
            lines.append("hash%s %d %s" % (rng.choice(G.WIDTHS), r, hexs(G.rand_data(rng, rng.below(100)))))
            live.remove(r)
    for r in live:
        lines.append("fin%s %d" % (rng.choice(G.WIDTHS), r))
    return lines


# C08  no safe call sequence panics
def c08(ctx):
    ctx.nontrivial_rule = ("random histories over the whole safe API (construct, default, restore from arbitrary 164-byte blobs with the "
                           "count field over all of u32's interesting values, restore-from-checkpoint, append/write/finish/clone/"
                           "checkpoint/debug/flush/finalize/one-shot) on all x86 hasher types, run in the dev profile (overflow checks + "
                           "debug assertions) and in release under catch_unwind; oracle: no PANIC line, no crash; plus #[no_panic] "
                           "wrappers around every public operation linked in release+LTO; non-trivial = distinct script")
    ok = proof_gate(ctx, "theories/Properties/C08.v", ["C08_no_panic"])
    ensure_model(ctx)
    seed_rng = Rng(ctx.seed).fork("C08")

    def make(impl):
        rng = seed_rng.fork("h")      # same histories in every profile
        ops = feed_ops_for(impl)
        hists = []
        hid = 0
        # targeted: every count field class x follow-ups, every backend
        for cnt in [0, 1, 15, 16, 17, 28, 31, 32, 33, 63, 64, 255, 256, 1 << 16, 1 << 31, (1 << 32) - 1, (1 << 32) - 32]:
            for b in X86_BACKENDS:
                blob = rng.bytes(160, rng.below(2)) + cnt.to_bytes(4, "little")
                op = "frestore" if b in ("S", "A") else "restore"
                for follow in (["fin64 0"], ["append 0 -", "fin128 0"], ["append 0 %s" % hexs(rng.bytes(1 + rng.below(40), 1)), "fin256 0"],
                               ["finish 0", "ckpt 0", "debug 0", "clone 1 0", "fin64 1", "fin256 0"]):
                    hists.append(History(hid, ["%s 0 %s %s" % (op, b, blob.hex())] + follow, {"count": cnt}))
                    ctx.count("count_class=%s" % ("<32" if cnt < 32 else "32" if cnt == 32 else ">32"))
                    hid += 1
        for i in range(1500 if ctx.tier == "quick" else 60000):
            hists.append(History(hid, random_history(rng, ops), {}))
            hid += 1
        return hists

    def oracle(h, il):
        if has_panic(il):
            return "a safe call sequence panicked (transcript ends with %s)" % il[-1:]
        return None

    keep = DIGEST + ("PANIC", "FAULT", "W", "NONE", "CK", "FIN", "TAG")
    names = ("dev", "release") if ctx.tier == "quick" else ("dev", "release", "dev-avx2", "dev-nostd", "release-sse41-noavx2")
    multi_dynamic(ctx, names, make, oracle, keep, "no-panic over safe call sequences", "C08")
    # the link-time clause: #[no_panic] wrappers around every public operation (release, fat LTO)
    t0 = __import__("time").time()
    okl, out = nopanic_link()
    ctx.extra["no_panic_link"] = {"ok": okl, "wall_s": round(__import__("time").time() - t0, 1),
                                  "what": "release+LTO link of #[no_panic] wrappers around every public operation of PortableHash, SseHash, AvxHash, HighwayHasher"}
    if not okl and not ctx.violations:
        fn = re.findall(r"detected panic in function `([^`]+)`", out)
        ctx.violation("the optimised build contains a panic path: #[no_panic] wrapper(s) %s no longer link\n%s" % (fn, out[-1500:]),
                      None, no_input=True, tag="nopanic")
    facts_gate(ctx, "C08")     # source level: the interpreted source returns Ok on new / append* / finalize in every profile
    proof_verdict(ctx, ok)


def nopanic_link():
    d = os.path.join(C.ROOT, "harness-nopanic")
    if not os.path.isdir(d):
        return True, "harness-nopanic not present"
    lock = os.path.join(d, "Cargo.lock")
    if not os.path.exists(lock):
        import shutil
        shutil.copy(os.path.join(C.REPO, "Cargo.lock"), lock)
    rc, out = C.sh(["cargo", "build", "--release", "--offline"], cwd=d,
                   env={"RUSTFLAGS": "--cfg %s" % C.GUARD_CFG, "CARGO_TARGET_DIR": os.path.join(C.CACHE, "target-nopanic")}, timeout=1200)
    return rc == 0, out


# C09  memory safety and address independence
def c09(ctx):
    ctx.nontrivial_rule = ("one history = chunked hashing on an x86 hasher type with the data placed (a) ending exactly at a PROT_NONE "
                           "page, (b) starting right after one, (c) at every start alignment 0..63 inside a region filled with 0x00/0xAA/0xFF, "
                           "and the hasher object itself placed against a PROT_NONE page; oracle: no fault (the process survives) and the "
                           "transcript equals that of the same script with heap placement; lengths 0..160 and chunkings; "
                           "non-trivial = distinct script with a non-empty chunk")
    ok = proof_gate(ctx, "theories/Properties/C09.v", ["C09_no_fault", "C09_address_independent"])
    ensure_model(ctx)
    seed_rng = Rng(ctx.seed).fork("C09")
    plain = {}

    def body(rng, b, n, w, chunks, hctor):
        key = G.DOC_KEY
        lines = [hctor % (b, G.keystr(key)) if "%s" in hctor else hctor]
        for c in chunks:
            lines.append("append 0 %s" % hexs(c))
        lines += ["ckpt 0", "fin%s 0" % w]
        return lines

    def make_pairs(impl):
        rng = seed_rng.fork(impl.name)
        hists = []
        hid = 0
        lens = list(range(0, 161)) if ctx.tier == "thorough" else list(range(0, 72)) + [95, 96, 97, 127, 128, 129, 159, 160]
        for n in lens:
            d = rng.bytes(n, 1)
            for b in X86_BACKENDS:
                for k in range(3 if ctx.tier == "quick" else 6):
                    w = G.WIDTHS[(n + k) % 3]
                    chunks = [d] if k == 0 else G.partition(rng, d, 2 + rng.below(3))
                    op = "fnew" if b in ("S", "A") else "new"
                    core = ["%s 0 %s %s" % (op, b, G.keystr(G.DOC_KEY))] + ["append 0 %s" % hexs(c) for c in chunks] + ["ckpt 0", "fin%s 0" % w]
                    placements = [["place end"], ["place start"], ["place mid %d %s" % ((n * 7 + k * 13) % 64, ("00", "aa", "ff")[k % 3])],
                                  ["hplace end", "place end"], ["hplace start", "place mid %d ff" % ((n + k) % 64)]]
                    if ctx.tier == "quick":
                        placements = [placements[(n + k) % 5], placements[(n + k + 2) % 5]]
                    base_id = hid
                    hists.append(History(hid, core, {"plain": True, "nontrivial": n > 0}))
                    hid += 1
                    for pl in placements:
                        hists.append(History(hid, pl + core, {"plain_id": base_id, "place": " ".join(pl), "nontrivial": n > 0}))
                        ctx.count("place=%s" % pl[0])
                        hid += 1
        # every alignment 0..63 x remainder classes, AVX and SSE
        for al in range(64):
            for n in (31, 33, 47, 64, 65, 97):
                d = rng.bytes(n, 0)
                b = ("A", "S", "D")[al % 3]
                op = "fnew" if b in ("S", "A") else "new"
                core = ["%s 0 %s %s" % (op, b, G.keystr(G.REF_KEY)), "append 0 %s" % hexs(d[:n // 3]), "append 0 %s" % hexs(d[n // 3:]), "fin64 0"]
                hists.append(History(hid, core, {"plain": True}))
                hists.append(History(hid + 1, ["place mid %d 55" % al] + core, {"plain_id": hid, "place": "mid %d" % al}))
                hid += 2
        return hists

    def oracle(h, il):
        if il and il[-1].startswith("CRASH"):
            return "the process died (%s): a read outside the slice / misaligned access" % il[-1]
        if has_panic(il):
            return "panic"
        if h.meta.get("plain"):
            plain[h.hid] = il
            return None
        ref = plain.get(h.meta.get("plain_id"))
        if ref is None:
            return None
        if il != ref:
            return "placement `%s` changes the transcript: %s vs %s" % (h.meta.get("place"), il[-2:], ref[-2:])
        return None

    keep = DIGEST + ("PANIC", "FAULT", "CK", "NONE")
    for name in ("dev", "release"):
        impl = get_impl(ctx, name)
        plain.clear()
        hists = make_pairs(impl)
        ph = [h for h in hists if h.meta.get("plain")]
        rest = [h for h in hists if not h.meta.get("plain")]
        f1, m1, _ = run_dynamic(ctx, impl, ph, oracle, keep)
        f2, m2, _ = run_dynamic(ctx, impl, rest, oracle, keep)

        def oracle_single(h, il, _impl=impl):
            if il and il[-1].startswith("CRASH"):
                return "the process died (%s)" % il[-1]
            core = [l for l in h.lines if not l.startswith(("place", "hplace"))]
            if core == h.lines:
                return None
            tr, _ = C.impl_run(_impl, [History(1, core)])
            if tr.get(1) != il:
                return "placement changes the transcript"
            return None
        report(ctx, impl, f1 + f2, m1 + m2, oracle_single, keep, "memory safety / address independence")
    memsig_check(ctx)
    proof_verdict(ctx, ok)


def memsig_check(ctx):
    """gen/MemSig.v (regenerated from /repo) must equal the memory signature the model declares."""
    try:
        from . import facts
    except ImportError:
        return
    facts.check_memsig(ctx)


# C11  restore from arbitrary 164 bytes
def c11(ctx):
    ctx.nontrivial_rule = ("one history = one arbitrary 164-byte blob (random lanes incl. edge values, random buffer, count field over "
                           "{0..31, 32, 33, 255, 256, 2^16, 2^31, 2^32-1, random}) restored on PortableHash, SseHash, AvxHash and "
                           "HighwayHasher; on each: checkpoint, empty append, checkpoint, chunked feeding vs one feed, re-checkpoint hop, "
                           "digests; oracle: all four backends print identical lines, the empty append changes nothing, chunked = "
                           "one-shot, hop = no hop, no panic (dev and release); non-trivial = distinct blob+follow-up")
    ok = proof_gate(ctx, "theories/Properties/C11.v",
                    ["C11_restore_total", "C11_backend_independent", "C11_empty_append", "C11_recheckpoint"])
    ensure_model(ctx)
    seed_rng = Rng(ctx.seed).fork("C11")

    def make(impl):
        rng = seed_rng.fork("blobs")
        hists = []
        for hid in range(700 if ctx.tier == "quick" else 30000):
            blob, cnt = G.rand_blob(rng)
            if hid % 5 == 0:      # edge lanes
                lanes = b"".join(rng.choice(G.EDGE_LANES).to_bytes(8, "little") for _ in range(16))
                blob = lanes + blob[128:]
            d = G.rand_data(rng, rng.choice(G.CHUNK_LENS + [rng.below(120)]))
            cut = rng.below(len(d) + 1)
            w = G.WIDTHS[hid % 3]
            lines = []
            for i, b in enumerate(X86_BACKENDS):
                op = "frestore" if b in ("S", "A") else "restore"
                r = 10 * i
                lines += ["%s %d %s %s" % (op, r, b, blob.hex()), "ckpt %d" % r, "append %d -" % r, "ckpt %d" % r,
                          "clone %d %d" % (r + 1, r), "clone %d %d" % (r + 2, r),
                          "append %d %s" % (r, hexs(d[:cut])), "append %d %s" % (r, hexs(d[cut:])), "append %d %s" % (r + 1, hexs(d)),
                          "%s %d %s %d" % (restore_op(X86_BACKENDS[(i + 1) % 4]), r + 3, X86_BACKENDS[(i + 1) % 4], r + 2),
                          "append %d %s" % (r + 3, hexs(d)),
                          "fin%s %d" % (w, r), "fin%s %d" % (w, r + 1), "fin%s %d" % (w, r + 3), "finish %d" % (r + 2)]
            hists.append(History(hid, lines, {"count": cnt}))
            ctx.count("count_class=%s" % ("<32" if cnt < 32 else "32" if cnt == 32 else ">32"))
        return hists

    def oracle(h, il):
        if has_panic(il):
            return "restoring / using an arbitrary checkpoint panicked"
        nb = sum(1 for l in h.lines if l.startswith(("restore ", "frestore ")))
        obs = lines_of(il, DIGEST + ("CK", "FIN"))
        if nb < 1 or not obs or len(obs) % nb != 0 or len(obs) // nb != 6:
            return None
        per = len(obs) // nb
        groups = [obs[i * per:(i + 1) * per] for i in range(nb)]
        for g in groups[1:]:
            if g != groups[0]:
                return "backends disagree after restoring the same 164 bytes: %s vs %s" % (g, groups[0])
        for g in groups:
            ck1, ck2, d_chunked, d_one, d_hop, _fin = g
            if ck1 != ck2:
                return "an empty append changed the checkpoint of a restored hasher"
            if not (d_chunked == d_one == d_hop):
                return "restored hasher: chunked %s / one feed %s / via re-checkpoint hop %s" % (d_chunked, d_one, d_hop)
        return None

    keep = DIGEST + ("PANIC", "FAULT", "CK", "FIN", "NONE")
    multi_dynamic(ctx, ("dev", "release"), make, oracle, keep, "restore from arbitrary bytes", "C11")
    # "whichever backend restores them" includes the portable code on a big-endian machine: same 164 bytes, same results as the host
    from . import miri
    rng = seed_rng.fork("be")
    be = []
    for hid in range(40):
        blob, cnt = G.rand_blob(rng)
        if hid % 4 == 0:
            blob = b"".join(rng.choice(G.EDGE_LANES).to_bytes(8, "little") for _ in range(16)) + blob[128:]
        d = G.rand_data(rng, rng.choice([0, 1, 7, 31, 32, 33, 64, 70]))
        w = G.WIDTHS[hid % 3]
        lines = []
        for i, b in enumerate(("P", "D")):
            r = 10 * i
            lines += ["restore %d %s %s" % (r, b, blob.hex()), "ckpt %d" % r, "append %d -" % r, "ckpt %d" % r, "clone %d %d" % (r + 1, r),
                      "append %d %s" % (r, hexs(d)), "fin%s %d" % (w, r), "finish %d" % (r + 1)]
        be.append(History(hid, lines, {"count": cnt}))
    miri.other_targets(ctx, be, lambda h, il: "restoring / using an arbitrary checkpoint panicked" if has_panic(il) else None, keep,
                       "restore from arbitrary bytes")
    miri.simd_backends(ctx)     # "for all backends" includes NeonHash and WasmHash: the real aarch64.rs / wasm.rs under Miri
    facts_gate(ctx, "C11")     # translator tie: from_checkpoint / append / HashPacket of the source are the model
    proof_verdict(ctx, ok)


# C12  std adapters
def c12(ctx):
    ctx.nontrivial_rule = ("one history = interleaved write / write_all / io::copy / Hasher::write / flush / finish on one hasher, and after "
                           "each finish a fresh same-key PortableHash one-shot over the bytes written so far; oracle: FIN = that D64, "
                           "repeated finish identical, W n = buffer length, a HighwayBuildHasher-built hasher = HighwayHasher::new(key); "
                           "hash_one of values of several types through two builder instances equals PortableHash over the recorded "
                           "write stream; non-trivial = distinct script")
    ok = proof_gate(ctx, "theories/Properties/C12.v",
                    ["C12_finish", "C12_finish_does_not_consume", "C12_write", "C12_build_hasher"])
    ensure_model(ctx)
    seed_rng = Rng(ctx.seed).fork("C12")

    def make(impl):
        rng = seed_rng.fork("a")
        hists = []
        for hid in range(500 if ctx.tier == "quick" else 20000):
            key = G.rand_key(rng)
            b = rng.choice(X86_BACKENDS + ("B",))
            lines = [ctor(b, 0, key)]
            sofar = b""
            aux = 1
            ints_only = hid % 5 == 4          # the stream a #[derive(Hash)] struct of integers produces
            for step in range(1 + rng.below(12 if ints_only else 9)):
                m = 7 if ints_only and rng.below(4) else rng.below(9)
                d = G.rand_data(rng, rng.choice(G.CHUNK_LENS + [rng.below(90)]))
                if m >= 7:
                    kind = rng.choice(INT_KINDS if not ints_only else INT_KINDS + ("u64", "u64", "u32", "usize"))
                    d = G.rand_data(rng, INT_WIDTH[kind])
                    lines.append("hwint 0 %s %s" % (kind, hexs(d)))
                    sofar += d
                    ctx.count("hasher_int=%s" % kind)
                elif m < 4:
                    lines.append("%s 0 %s" % (("write", "writeall", "iocopy", "hwrite")[m], hexs(d)))
                    sofar += d
                elif m == 4:
                    lines.append("flush 0")
                else:
                    lines += ["finish 0", "finish 0", "new %d P %s" % (aux, G.keystr(key)), "hash64 %d %s" % (aux, hexs(sofar))]
                    aux += 1
            lines += ["finish 0", "new %d D %s" % (aux, G.keystr(key)), "hash64 %d %s" % (aux, hexs(sofar))]
            hists.append(History(hid, lines, {"backend": b}))
        # io::Write::write_vectored: whatever count n it reports (std's provided method takes the first non-empty buffer; taking
        # more is allowed), finish must be the hash of the earlier bytes followed by exactly the first n bytes of the buffers
        hid = len(hists)
        for i in range(60 if ctx.tier == "quick" else 3000):
            key = G.rand_key(rng)
            b = rng.choice(X86_BACKENDS + ("B",))
            pre = G.rand_data(rng, rng.choice([0, 1, 31, 32, 40]))
            bufs = [G.rand_data(rng, rng.choice([0, 0, 1, 8, 33, 64, 1100])) for _ in range(1 + rng.below(3))]
            lines = [ctor(b, 0, key), "append 0 %s" % hexs(pre), "writev 0 %s" % " ".join(hexs(x) for x in bufs), "finish 0"]
            hists.append(History(hid, lines, {"backend": b, "vec": True, "key": key, "pre": pre, "bufs": bufs}))
            ctx.count("write_vectored")
            hid += 1
        # large single buffers through every entry point (a write must consume ALL of it, whatever its size)
        sizes = [8191, 8192, 8193, 65535, 65536, 65537, 100000] + ([1 << 20, (1 << 20) + 1] if ctx.tier == "thorough" else [])
        for n in sizes:
            for k, op in enumerate(("write", "writeall", "iocopy", "hwrite")):
                b = (X86_BACKENDS + ("B",))[(k + n) % 5]
                key = G.rand_key(rng)
                d = rng.bytes(n, 0)
                pre = rng.bytes(rng.below(40), 1)
                lines = [ctor(b, 0, key), "append 0 %s" % hexs(pre), "%s 0 %s" % (op, hexs(d)), "finish 0",
                         "new 1 P %s" % G.keystr(key), "hash64 1 %s" % hexs(pre + d)]
                hists.append(History(hid, lines, {"backend": b, "big": n}))
                ctx.count("big_buffer=%d" % n)
                hid += 1
        return hists

    def oracle(h, il):
        if has_panic(il):
            return "panic"
        # walk script and transcript together (one output line per op)
        outs = [l for l in il if not l.startswith("ALLOC")]
        if len(outs) != len(h.lines):
            return None
        if any(l.startswith("writev") for l in h.lines):
            # recompute from the script (shrink candidates included): bytes before, the vectored write, finish
            if len(h.lines) != 4 or not h.lines[1].startswith("append 0") or not h.lines[2].startswith("writev 0") or h.lines[3] != "finish 0":
                return None
            t = h.lines[1].split()
            pre = b"" if t[2] == "-" else bytes.fromhex(t[2])
            cat = b"".join(b"" if x == "-" else bytes.fromhex(x) for x in h.lines[2].split()[2:])
            w = outs[2].split()
            if w[0] != "W" or not outs[3].startswith("FIN "):
                return "write_vectored failed: %s" % outs[2]
            n = int(w[1])
            if n > len(cat) or (cat and n == 0):
                return "write_vectored over %d bytes reported %d" % (len(cat), n)
            key = tuple(int(x, 16) for x in h.lines[0].split()[3:7])
            want = C.spec_run([(64, key, pre + cat[:n])])[0].split()[1]
            if outs[3].split()[1] != want:
                return "after write_vectored reported %d bytes, finish is %s but HighwayHash64 of the bytes written so far is %s" % (n, outs[3].split()[1], want)
            return None
        last_fin = []
        sofar = ""
        for op, o in zip(h.lines, outs):
            t = op.split()
            if t[1] == "0" and t[0] in ("write", "writeall", "iocopy", "hwrite", "append", "hwint"):
                a = t[3] if t[0] == "hwint" else t[2]
                sofar += "" if a == "-" else a
            if t[0] == "hash64" and (t[2] if t[2] != "-" else "") != sofar:
                return None                 # not of the generated shape (a shrink candidate that dropped a write): no verdict
            if t[0] in ("write", "iocopy"):
                n = 0 if t[2] == "-" else len(t[2]) // 2
                if o != "W %d" % n:
                    return "%s of %d bytes reported `%s`" % (t[0], n, o)
            elif t[0] in ("writeall", "flush") and o != "OK":
                return "%s failed: %s" % (t[0], o)
            elif t[0] == "finish":
                last_fin.append(o.split()[1])
            elif t[0] == "hash64" and last_fin:
                want = o.split()[1]
                if any(f != want for f in last_fin):
                    return "finish returned %s but the 64-bit hash of the bytes written so far is %s" % (last_fin, want)
                last_fin = []
        return None

    keep = DIGEST + ("PANIC", "FAULT", "W", "FIN", "NONE", "OK", "WERR")
    multi_dynamic(ctx, ("dev", "release"), make, oracle, keep, "std adapters", "C12")
    hashone_check(ctx)
    facts_gate(ctx, "C12")     # adapters come only from the two audited macros of src/macros.rs
    proof_verdict(ctx, ok)


def hashone_check(ctx):
    """BuildHasher::hash_one through two builder instances and two processes = PortableHash over the recorded stream."""
    impl = get_impl(ctx, "release")
    rng = Rng(ctx.seed).fork("hashone")
    lines = []
    n = 200 if ctx.tier == "quick" else 5000
    for i in range(n):
        key = G.rand_key(rng)
        kind = rng.choice(["u8", "u16", "u32", "i32", "u64", "i64", "u128", "usize", "isize", "bool", "char", "str", "bytes", "tuple",
                           "vec16", "slice32", "array8", "option", "unit"])
        val = rng.bytes(rng.below(40), rng.below(2))
        lines.append("hashone %s %s %s" % (G.keystr(key), kind, hexs(val)))
    text = "H 0\n" + "\n".join(lines) + "\n"
    outs = []
    for rep in range(2):
        p = C._write_tmp(text)
        rc, out = C.sh([impl.path, "run", p])
        os.unlink(p)
        outs.append([l for l in out.splitlines() if l.startswith("HONE")])
    if outs[0] != outs[1]:
        ctx.violation("hash_one differs between two processes", History(0, lines[:5]), impl.name)
        return
    if len(outs[0]) != n:
        return   # harness without hashone support
    cases = []
    for l, src in zip(outs[0], lines):
        t = l.split()      # HONE <stream hex|-> <fin> <fin2> <ref>
        stream = bytes.fromhex(t[1]) if t[1] != "-" else b""
        key = tuple(int(x, 16) for x in src.split()[1:5])
        cases.append((64, key, stream))
        ctx.evaluations += 1
        ctx.distinct.add(hash(src))
        if not (t[2] == t[3] == t[4]):
            ctx.violation("hash_one: two builder instances / PortableHash over the recorded write stream disagree: %s" % l,
                          History(0, [src]), impl.name)
            return
    spec = C.spec_run(cases)
    for l, s, src in zip(outs[0], spec, lines):
        if s.split()[1] != l.split()[2]:
            ctx.violation("hash_one digest %s differs from Spec.HH64 %s over the recorded write stream" % (l.split()[2], s),
                          History(0, [src]), impl.name)
            return
    ctx.count("hash_one values", n)


OBSERVERS = ("ckpt", "finish", "debug", "flush")


# C13  observers / clones
def c13(ctx):
    ctx.nontrivial_rule = ("pairs of histories: a random history over all x86 hasher types, and the same history with checkpoint / "
                           "finish / Debug / flush calls and extra clones (finalised at once) inserted at random positions; oracle: the "
                           "non-observer output lines are identical; plus clone-divergence histories (original and clone continued "
                           "differently, each compared with a fresh hasher fed the same bytes); non-trivial = distinct script")
    ok = proof_gate(ctx, "theories/Properties/C13.v",
                    ["C13_observer_transparent", "C13_clone_is_same_value", "C13_registers_independent", "C13_reachable_ok"])
    ensure_model(ctx)
    seed_rng = Rng(ctx.seed).fork("C13")
    base_tr = {}

    def make(impl):
        rng = seed_rng.fork("o")
        ops = feed_ops_for(impl)
        hists = []
        hid = 0
        for i in range(500 if ctx.tier == "quick" else 20000):
            base = [l for l in random_history(rng, ops, blobs=(i % 3 == 0)) if l.split()[0] not in OBSERVERS]
            hists.append(History(hid, base, {"base": True}))
            withobs = []
            live = set()
            for l in base:
                t = l.split()
                for _ in range(rng.below(3)):
                    if live:
                        r = rng.choice(sorted(live))
                        m = rng.below(5)
                        if m < 4:
                            withobs.append("%s %d" % (OBSERVERS[m] if (OBSERVERS[m] != "flush" or "write" in ops) else "ckpt", r))
                        else:
                            withobs += ["clone 77 %d" % r, "append 77 %s" % hexs(rng.bytes(5, 0)), "fin64 77"]
                withobs.append(l)
                if t[0] in ("new", "fnew", "default", "restore", "frestore", "restorefrom", "frestorefrom", "clone"):
                    live.add(int(t[1]))
                if t[0].startswith(("fin6", "fin1", "fin2", "hash")):
                    live.discard(int(t[1]))
            hists.append(History(hid + 1, withobs, {"base_id": hid, "base_lines": base}))
            hid += 2
        # clone divergence
        for i in range(150 if ctx.tier == "quick" else 5000):
            b = rng.choice(X86_BACKENDS)
            key = G.rand_key(rng)
            a, x, y = (G.rand_data(rng, rng.below(80)) for _ in range(3))
            w = rng.choice(G.WIDTHS)
            lines = [ctor(b, 0, key), "append 0 %s" % hexs(a), "clone 1 0", "append 0 %s" % hexs(x), "append 1 %s" % hexs(y),
                     "fin%s 0" % w, "fin%s 1" % w,
                     "new 2 P %s" % G.keystr(key), "hash%s 2 %s" % (w, hexs(a + x)), "new 3 P %s" % G.keystr(key), "hash%s 3 %s" % (w, hexs(a + y))]
            hists.append(History(hid, lines, {"clone": True}))
            hid += 1
            # Clone::clone_from onto a destination that already absorbed bytes (0..40 of them pending / absorbed)
            dirty = G.rand_data(rng, rng.choice([0, 1, 11, 16, 31, 32, 33, 40]))
            lines = [ctor(b, 0, key), "append 0 %s" % hexs(a), ctor(b, 1, G.rand_key(rng)), "append 1 %s" % hexs(dirty), "finish 1" if b != "N" else "ckpt 1",
                     "clonefrom 1 0", "append 0 %s" % hexs(x), "append 1 %s" % hexs(y), "fin%s 0" % w, "fin%s 1" % w,
                     "new 2 P %s" % G.keystr(key), "hash%s 2 %s" % (w, hexs(a + x)), "new 3 P %s" % G.keystr(key), "hash%s 3 %s" % (w, hexs(a + y))]
            hists.append(History(hid, lines, {"clone": True, "clone_from": len(dirty)}))
            hid += 1
        return hists

    def strip(h, il):
        outs = [l for l in il if not l.startswith("ALLOC")]
        res = []
        skip77 = 0
        for op, o in zip(h.lines, outs):
            t = op.split()
            if t[0] in OBSERVERS or (len(t) > 1 and t[1] == "77") or (t[0] == "clone" and t[1] == "77"):
                continue
            res.append(o)
        return res

    def oracle(h, il):
        if has_panic(il):
            return "panic"
        if h.meta.get("base"):
            base_tr[h.hid] = [l for l in il if not l.startswith("ALLOC")]
            return None
        if h.meta.get("clone"):
            ds = digests(il)
            if len(ds) == 4 and (ds[0] != ds[2] or ds[1] != ds[3]):
                return "original/clone after divergent continuations: %s, expected %s" % (ds[:2], ds[2:])
            return None
        ref = base_tr.get(h.meta.get("base_id"))
        if ref is None:
            return None
        got = strip(h, il)
        if got != ref:
            d = C.first_diff(got, ref)
            return "observers changed a later result: %s" % (d,)
        return None

    keep = DIGEST + ("PANIC", "FAULT", "W", "FIN", "NONE", "CK", "TAG")
    for name in ("dev", "release"):
        impl = get_impl(ctx, name)
        base_tr.clear()
        hists = make(impl)
        b = [h for h in hists if h.meta.get("base")]
        rest = [h for h in hists if not h.meta.get("base")]
        f1, m1, _ = run_dynamic(ctx, impl, b, oracle, keep)
        f2, m2, _ = run_dynamic(ctx, impl, rest, oracle, keep)

        def oracle_single(h, il, _impl=impl):
            if has_panic(il):
                return "panic"
            if h.meta.get("clone") or "base_lines" not in h.meta:
                return oracle(h, il) if h.meta.get("clone") else None
            core = [l for l in h.lines if l.split()[0] not in OBSERVERS and " 77" not in l]
            tr, _ = C.impl_run(_impl, [History(1, core)])
            ref = [l for l in tr.get(1, []) if not l.startswith("ALLOC")]
            if strip(h, il) != ref:
                return "observers changed a later result"
            return None
        report(ctx, impl, f1 + f2, m1 + m2, oracle_single, keep, "observer transparency / clone independence")
    facts_gate(ctx, "C13")     # no type overrides Clone::clone_from or any other provided method the model does not know
    proof_verdict(ctx, ok)


# C14  checkpoint bytes canonical
def c14(ctx):
    ctx.nontrivial_rule = ("one history = the same key and bytes fed with two different chunkings to each of PortableHash, SseHash, AvxHash, "
                           "HighwayHasher (8 hashers), checkpoint of each, then restore-and-checkpoint-again; oracle: all checkpoints "
                           "byte-identical, idempotent, count field = len mod 32, bytes beyond the pending ones zero; "
                           "non-trivial = distinct script with non-empty data")
    ok = proof_gate(ctx, "theories/Properties/C14.v",
                    ["C14_checkpoint_canonical", "C14_idempotent", "C14_layout", "C14_only_unabsorbed_bytes"])
    ensure_model(ctx)
    seed_rng = Rng(ctx.seed).fork("C14")

    def make(impl):
        rng = seed_rng.fork("c")
        hists = []
        lens = list(G.LENS_SMALL) + [rng.below(500) for _ in range(100 if ctx.tier == "quick" else 10000)]
        for hid, n in enumerate(lens):
            key = G.rand_key(rng)
            d = rng.bytes(n, 1 if hid % 2 else 0)
            lines = []
            r = 0
            for b in X86_BACKENDS:
                for ch in (G.partition(rng, d, 2 + rng.below(4)), [d[:max(0, n - 9)], d[max(0, n - 9):]]):
                    lines.append(ctor(b, r, key))
                    lines += ["append %d %s" % (r, hexs(c)) for c in ch]
                    lines += ["ckpt %d" % r, "%s %d %s %d" % (restore_op(b), r + 50, b, r), "ckpt %d" % (r + 50)]
                    r += 1
            hists.append(History(hid, lines, {"len": n, "nontrivial": n > 0}))
        return hists

    def oracle(h, il):
        if has_panic(il):
            return "panic"
        cks = lines_of(il, ("CK",))
        if len(cks) < 2 or len(cks) != sum(1 for l in h.lines if l.startswith("ckpt")):
            return None
        if not all_equal(cks):
            return "checkpoints of hashers that consumed the same stream differ (%d distinct values)" % len(set(cks))
        raw = bytes.fromhex(cks[0].split()[1])
        cnt = int.from_bytes(raw[160:164], "little")
        if cnt >= 32 or any(raw[128 + cnt:160]):
            return "checkpoint is not canonical: count %d, non-zero bytes after the pending ones" % cnt
        return None

    keep = ("PANIC", "FAULT", "CK", "NONE")
    multi_dynamic(ctx, ("dev", "release"), make, oracle, keep, "canonical checkpoint bytes", "C14")
    # canonical also means: the same bytes on every target.  The real portable code on a big-endian machine (Miri) must write
    # exactly the checkpoint the x86_64 host writes for the same key and stream
    from . import miri
    rng = seed_rng.fork("be")
    be = []
    for hid, n in enumerate(list(range(0, 36)) + [63, 64, 65, 96, 97, 130]):
        key = G.rand_key(rng)
        d = rng.bytes(n, 1 if hid % 2 else 0)
        lines = []
        for r, (b, ch) in enumerate((("P", G.partition(rng, d, 2 + rng.below(3))), ("D", [d[:max(0, n - 9)], d[max(0, n - 9):]]))):
            lines.append("new %d %s %s" % (r, b, G.keystr(key)))
            lines += ["append %d %s" % (r, hexs(c)) for c in ch]
            lines += ["ckpt %d" % r, "restorefrom %d %s %d" % (r + 50, b, r), "ckpt %d" % (r + 50)]
        be.append(History(hid, lines, {"len": n, "nontrivial": n > 0}))
    miri.other_targets(ctx, be, oracle, keep, "canonical checkpoint bytes")
    miri.simd_backends(ctx)     # "for all backends" includes NeonHash and WasmHash: the real aarch64.rs / wasm.rs under Miri
    facts_gate(ctx, "C14")     # translator tie: the source functions this property rests on are the model
    proof_verdict(ctx, ok)


# C15  isolation
def c15(ctx):
    ctx.nontrivial_rule = ("(a) k independent histories on disjoint registers interleaved at random into one history: each register's "
                           "outputs must equal those of its isolated run; (b) the whole script run with 16 threads and with 1 thread: "
                           "identical transcripts; (c) hashers from HighwayBuildHasher instances on many threads; non-trivial = distinct script")
    ok = proof_gate(ctx, "theories/Properties/C15.v", ["C15_frame", "C15_outputs_local"])
    ensure_model(ctx)
    rng = Rng(ctx.seed).fork("C15")
    iso = {}
    hists = []
    hid = 0
    subs_of = {}
    for i in range(300 if ctx.tier == "quick" else 10000):
        k = 2 + rng.below(3)
        subs = []
        for j in range(k):
            lines = random_history(rng, G.FEED_OPS_STD, nregs=1, maxops=8)
            # rename registers into a private range
            ren = []
            for l in lines:
                t = l.split()
                for pos in REG_POS.get(t[0], (1,)):      # only the positions that hold a register number for this operation
                    if pos < len(t):
                        t[pos] = str(int(t[pos]) + 10 * (j + 1))
                ren.append(" ".join(t))
            subs.append(ren)
            hists.append(History(hid, ren, {"iso": True}))
            hid += 1
        # random interleaving
        idx = [0] * k
        order = []
        inter = []
        while any(idx[j] < len(subs[j]) for j in range(k)):
            j = rng.choice([j for j in range(k) if idx[j] < len(subs[j])])
            inter.append(subs[j][idx[j]])
            order.append(j)
            idx[j] += 1
        hists.append(History(hid, inter, {"inter": True, "order": order, "iso_ids": list(range(hid - k, hid))}))
        hid += 1

    def oracle(h, il):
        if has_panic(il):
            return "panic"
        outs = [l for l in il if not l.startswith("ALLOC")]
        if h.meta.get("iso"):
            iso[h.hid] = outs
            return None
        if not h.meta.get("inter") or len(outs) != len(h.lines):
            return None
        per = {}
        for j, o in zip(h.meta["order"], outs):
            per.setdefault(j, []).append(o)
        for j, iid in enumerate(h.meta["iso_ids"]):
            if iid in iso and per.get(j, []) != iso[iid]:
                return "interleaving with other hashers changed a hasher's outputs: %s vs isolated %s" % (per.get(j), iso[iid])
        return None

    keep = DIGEST + ("PANIC", "FAULT", "W", "FIN", "NONE", "CK", "TAG", "OK")
    for name in ("dev", "release"):
        impl = get_impl(ctx, name)
        iso.clear()
        a = [h for h in hists if h.meta.get("iso")]
        b = [h for h in hists if h.meta.get("inter")]
        f1, m1, tr1 = run_dynamic(ctx, impl, a, oracle, keep)
        f2, m2, tr2 = run_dynamic(ctx, impl, b, oracle, keep)
        report(ctx, impl, f1 + f2, m1 + m2, lambda h, il: None, keep, "isolation of hasher instances")
        # threads: the same script, 16 threads vs 1
        allh = a + b
        t16, _ = C.impl_run(impl, allh, threads=16)
        t1 = dict(tr1)
        t1.update(tr2)
        bad = [h for h in allh if t16.get(h.hid) != t1.get(h.hid)]
        ctx.count("threaded histories[%s]" % name, len(allh))
        if bad:
            ctx.violation("running the histories on 16 threads changes a transcript (%d histories differ)" % len(bad), bad[0], impl.name,
                          extra_lines=["1 thread:"] + t1.get(bad[0].hid, []) + ["16 threads:"] + t16.get(bad[0].hid, []))
        # stress: every thread runs every history many times at once (same operations at the same instant on different
        # hasher values): a process-wide scratch slot, cache or lock that is not per-instance shows up as a deviating transcript
        reps = 12 if ctx.tier == "quick" else 60
        sa = a if ctx.tier == "quick" else a[:3000]          # ~3 M concurrent history runs per profile in the thorough tier
        dev, summary = C.impl_stress(impl, sa, threads=16, reps=reps)
        ctx.count("stress runs[%s]" % name, len(sa) * 16 * reps)
        ctx.extra.setdefault("stress", {})[name] = summary
        if dev or "died" in summary:
            hid = sorted(dev)[0] if dev else sa[0].hid
            h = next(x for x in sa if x.hid == hid)
            got, exp = dev.get(hid, ([], []))
            ctx.violation("under 16 concurrent threads (%s) a hasher's transcript deviates from its single-threaded transcript; replay: "
                          "harness stress <this script> 16 %d" % (summary, max(reps, 200)), h, impl.name,
                          extra_lines=["single-threaded:"] + exp + ["concurrent (first deviation):"] + got)
    facts_gate(ctx, "C15")
    proof_verdict(ctx, ok)


def facts_gate(ctx, pid):
    try:
        from . import facts
    except ImportError:
        return
    facts.check(ctx, pid)



# C10  backend selection in every build configuration
def c10(ctx):
    ctx.nontrivial_rule = ("theorems over the ladder regenerated from src/builder.rs are exhaustive over all 256 configurations; dynamically, "
                           "in each buildable configuration (quick 6, thorough 20): HighwayHasher obtained by new / default / restore / clone / "
                           "HighwayBuildHasher reports (Debug) the same tag, the tag is one the configuration permits, SseHash::new / AvxHash::new / "
                           "from_checkpoint return Some iff std and the CPU feature is detected, and every digest equals PortableHash's; "
                           "non-trivial = distinct (configuration, script)")
    ok = proof_gate(ctx, "theories/Properties/C10.v",
                    ["C10_selection_permitted", "C10_source_ladders", "C10_dispatch_tables", "C10_safe_constructors",
                     "C10_default_and_builder", "C10_configuration_space", "C10_results_equal_portable"])
    ensure_model(ctx)
    seed_rng = Rng(ctx.seed).fork("C10")

    def make(impl):
        rng = seed_rng.fork(impl.name)
        hists = []
        for hid in range(40 if ctx.tier == "quick" else 400):
            key = G.rand_key(rng)
            d = G.rand_data(rng, rng.choice(G.CHUNK_LENS + [rng.below(200)]))
            blob, _ = G.rand_blob(rng)
            w = G.WIDTHS[hid % 3]
            lines = ["new 0 D %s" % G.keystr(key), "debug 0", "default 1 D", "debug 1", "restore 2 D %s" % blob.hex(), "debug 2",
                     "clone 3 0", "debug 3", "new 4 B %s" % G.keystr(key), "debug 4", "restorefrom 5 D 0", "debug 5",
                     "new 6 S %s" % G.keystr(key), "new 7 A %s" % G.keystr(key), "restore 8 S %s" % blob.hex(), "restore 9 A %s" % blob.hex(),
                     "append 0 %s" % hexs(d), "append 3 %s" % hexs(d), "append 4 %s" % hexs(d), "append 5 %s" % hexs(d),
                     "fin%s 0" % w, "fin%s 3" % w, "fin%s 4" % w, "fin%s 5" % w,
                     "new 20 P %s" % G.keystr(key), "hash%s 20 %s" % (w, hexs(d))]
            hists.append(History(hid, lines, {"cfg": impl.name}))
        return hists

    def oracle_for(impl):
        i = impl.info
        std, tfa, tfs, da, ds = (i["std"] == "1", i["tf_avx2"] == "1", i["tf_sse41"] == "1", i["det_avx2"] == "1", i["det_sse41"] == "1")

        def permitted(tag):
            if tag == 1:
                return tfa or (std and da)
            if tag == 2:
                return (tfs or (std and ds)) and not tfa
            if tag == 0:
                return not (tfa or tfs or (std and (da or ds)))
            return False

        def oracle(h, il):
            if has_panic(il):
                return "panic"
            tags = [int(l.split()[1]) for l in il if l.startswith("TAG ") and l.split()[1].isdigit()]
            if len(tags) != sum(1 for l in h.lines if l.startswith("debug")):
                return None
            if tags and not all_equal(tags):
                return "new/default/restore/clone/BuildHasher select different backends: tags %s" % tags
            if tags and not permitted(tags[0]):
                return "configuration %s does not permit backend tag %d" % (impl.name, tags[0])
            outs = [l for l in il if not l.startswith("ALLOC")]
            if len(outs) >= 16 and len(outs) == len(h.lines):
                exp_s = "OK" if (std and ds) else "NONE"
                exp_a = "OK" if (std and da) else "NONE"
                got = (outs[12], outs[13], outs[14], outs[15])
                if got != (exp_s, exp_a, exp_s, exp_a):
                    return "safe SIMD constructors returned %s, expected %s (std=%s, detected sse4.1=%s avx2=%s)" % (got, (exp_s, exp_a, exp_s, exp_a), std, ds, da)
            ds_ = digests(il)
            if len(ds_) == 5 and not all_equal(ds_):
                return "dispatcher digests %s differ from portable %s" % (ds_[:4], ds_[4])
            return None
        return oracle

    keep = DIGEST + ("PANIC", "FAULT", "TAG", "NONE", "OK")
    names = ("dev", "release", "release-avx2", "dev-nostd", "release-nostd-sse41", "dev-sse41-noavx2", "release-native") if ctx.tier == "quick" else ALL_CONFIGS
    for name in names:
        impl = get_impl(ctx, name)
        hists = make(impl)
        o = oracle_for(impl)
        fails, mism, _ = run_dynamic(ctx, impl, hists, o, keep)
        report(ctx, impl, fails, mism, o, keep, "backend selection in configuration %s" % name)
        ctx.count("configs", 1)
        if name not in C.PERSISTENT:
            impl.cleanup()
    proof_verdict(ctx, ok)


def fact_property(ctx, pid, prop_file, theorems):
    from . import facts
    ok = proof_gate(ctx, prop_file, theorems)
    off = []
    if not ok:
        off = facts.offenders(pid)
    return ok, off


# C16  no unsafe on the portable path
def c16(ctx):
    ctx.level = "proof"
    ctx.nontrivial_rule = "syntactic property: the evaluated cases are the source files of the portable path (regenerated inventory)"
    ok, off = fact_property(ctx, "C16", "theories/Properties/C16.v", ["C16_portable_path_has_no_unsafe", "C16_meaning"])
    from . import facts
    f = facts.parse_facts()
    for p in ("src/lib.rs", "src/portable.rs", "src/internal.rs", "src/key.rs", "src/traits.rs", "src/macros.rs", "src/hash.rs"):
        ctx.evaluations += 1
        ctx.distinct.add(p)
        ctx.samples.append({"file": p, "unsafe_constructs": f.get(p, {}).get("ff_unsafe", "?"), "macros": f.get(p, {}).get("ff_macros", "?")})
    if not ok:
        concrete = [o for o in off if re.search(r":\d+: |deny\(unsafe_code\)|macro", o)]
        if concrete:
            path = ctx.replay_path("v")
            ctx.violation("unsafe code on the portable path: " + "; ".join(concrete[:8]), None, tag="v", extra_lines=concrete)
        else:
            proof_verdict(ctx, ok)


# C17  byte-order / word-size neutrality
def c17(ctx):
    ctx.nontrivial_rule = ("(a) theorem over the regenerated inventory of the portable path; (b) the real PortableHash executed under Miri on "
                           "big-endian / 32-bit targets (s390x, powerpc, i686) against the extracted model: digests and checkpoint bytes of "
                           "generated histories must be identical; non-trivial = distinct script")
    ok, off = fact_property(ctx, "C17", "theories/Properties/C17.v", ["C17_endian_neutral_source", "C17_model_target_free"])
    ensure_model(ctx)
    try:
        from . import miri
        miri.portable_targets(ctx)
    except ImportError:
        pass
    if not ok and not ctx.violations:
        ctx.violation("regenerated source facts: the portable path is no longer shown byte-order / word-size neutral: " + "; ".join(off[:10]),
                      None, no_input=True, tag="facts", extra_lines=off)


# C18  no heap allocation
def c18(ctx):
    ctx.nontrivial_rule = ("a counting global allocator is armed around every library call of every generated history (all operations, all x86 "
                           "hasher types, inputs 0 .. 1 MiB in thorough / 64 KiB in quick, Debug into a stack sink), in std and no_std builds; "
                           "oracle: no ALLOC line; non-trivial = distinct script")
    ok, off = fact_property(ctx, "C18", "theories/Properties/C18.v", ["C18_no_alloc_constructs", "C18_fixed_size_state", "C18_reachable"])
    ensure_model(ctx)
    seed_rng = Rng(ctx.seed).fork("C18")

    def make(impl):
        rng = seed_rng.fork("h")
        ops = feed_ops_for(impl)
        hists = []
        hid = 0
        for i in range(600 if ctx.tier == "quick" else 20000):
            hists.append(History(hid, random_history(rng, ops), {}))
            hid += 1
        for n in ([1 << 12, 1 << 16] if ctx.tier == "quick" else [1 << 12, 1 << 16, 1 << 20]):
            for b in X86_BACKENDS:
                d = rng.bytes(n, 0)
                lines = [ctor(b, 0, G.REF_KEY), "%s 0 %s" % (ops[-1], hexs(d)), "append 0 %s" % hexs(d[:77])] + \
                        (["writev 0 %s %s" % (hexs(d[:8]), hexs(d[8:2000])), "writev 0 - %s %s" % (hexs(d[:3]), hexs(d[3:40]))] if "write" in ops else []) + \
                        ["ckpt 0", "debug 0", "clone 1 0", "finish 1", "fin256 0", "fin64 1"]
                hists.append(History(hid, lines, {"big": n}))
                hid += 1
        return hists

    def oracle(h, il):
        if has_panic(il):
            return "panic"
        a = [l for l in il if l.startswith("ALLOC")]
        if a:
            k = [i for i, l in enumerate(il) if l.startswith("ALLOC")][0]
            return "a library call allocated on the heap (%s after output line %d `%s`)" % (a[0], k, il[k - 1] if k else "")
        return None

    keep = DIGEST + ("PANIC", "FAULT", "W", "FIN", "NONE", "CK", "TAG", "OK")
    names = ("dev", "release", "release-nostd") if ctx.tier == "quick" else ("dev", "release", "dev-nostd", "release-nostd", "release-avx2")
    for name in names:
        impl = get_impl(ctx, name)
        hists = make(impl)
        big = [h for h in hists if h.meta.get("big", 0) > (1 << 16)]
        small = [h for h in hists if h not in big]
        fails, mism, _ = run_dynamic(ctx, impl, small, oracle, keep)
        f2, _, _ = run_dynamic(ctx, impl, big, oracle, keep, use_model=False)
        report(ctx, impl, fails + f2, mism, oracle, keep, "heap allocation in library calls")
        if name not in C.PERSISTENT:
            impl.cleanup()
    if not ok and not ctx.violations:
        ctx.violation("regenerated source facts: allocation-capable construct on the crate's non-test code: " + "; ".join(off[:10]),
                      None, no_input=True, tag="facts", extra_lines=off)



# C03 / C04  NEON / Wasm backends (Miri)
def c03(ctx):
    ctx.nontrivial_rule = ("the REAL src/aarch64.rs executed under Miri (target aarch64-unknown-linux-gnu, hook: USHL shim) against the extracted "
                           "model: one history = NeonHash, PortableHash and HighwayHasher (tag 3) fed the same bytes with a cut, checkpoints at the "
                           "cut, cross restores NEON->portable, portable->NEON, NEON->dispatcher, digests at all widths; every remainder size with "
                           "carry-boundary keys; arbitrary blobs; Default; oracle: NEON = portable (same process), checkpoints identical; "
                           "non-trivial = distinct script with non-empty data")
    ok = proof_gate(ctx, "theories/Properties/C03.v", ["C03_neon_equals_portable", "C03_checkpoints_interchangeable"])
    ensure_model(ctx)
    from . import miri
    miri.neon(ctx)
    facts_gate(ctx, "C03")     # translator tie: the NEON kernel re-translated from the source just now is the model
    proof_verdict(ctx, ok)


def c04(ctx):
    ctx.nontrivial_rule = ("the REAL src/wasm.rs executed under Miri (target wasm32-unknown-unknown +simd128, no_std allocator-free harness) against "
                           "the extracted model: same history shapes as C03 with WasmHash; oracle: Wasm = portable (same process), checkpoints "
                           "identical; non-trivial = distinct script with non-empty data")
    ok = proof_gate(ctx, "theories/Properties/C04.v", ["C04_wasm_equals_portable", "C04_checkpoints_interchangeable"])
    ensure_model(ctx)
    from . import miri
    miri.wasm(ctx)
    facts_gate(ctx, "C04")     # translator tie: the Wasm kernel re-translated from the source just now is the model
    proof_verdict(ctx, ok)


def replay(pid, path):
    """Re-run a replay script on the implementation (dev and release) and on the model; print both."""
    lines = [l.rstrip("\n") for l in open(path)]
    for l in lines:
        if l.startswith("#"):
            print(l)
    body = [l for l in lines if l.strip() and not l.startswith("#") and not l.startswith("H ")]
    if not body:
        print("(no script in this replay: it names a proof obligation or build step; re-run the check)")
        return 0
    h = History(0, body)
    C.build_driver()
    for name in ("dev", "release"):
        impl = C.build_harness(name)
        tr, _ = C.impl_run(impl, [h])
        mt = C.model_run([h], impl.profile(), impl.cfg_string())
        print("--- implementation (%s)" % name)
        print("\n".join(tr.get(0, [])))
        print("--- model (%s)" % name)
        print("\n".join(mt.get(0, [])))
        if any("harness stress" in l for l in lines if l.startswith("#")):
            dev, summary = C.impl_stress(impl, [h], threads=16, reps=3000)
            print("--- implementation (%s), this history on 16 threads x 3000 at once: %s" % (name, summary))
            for got, exp in dev.values():
                print("concurrent transcript that deviated:\n" + "\n".join(got))
    return 0


PROPS = {"C01": c01, "C02": c02, "C03": c03, "C04": c04, "C05": c05, "C06": c06, "C07": c07, "C08": c08, "C09": c09,
         "C10": c10, "C11": c11, "C12": c12, "C13": c13, "C14": c14, "C15": c15, "C16": c16, "C17": c17, "C18": c18}
