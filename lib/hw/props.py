"""Per-property checks.  Each function takes a Ctx, runs the proof audit, the correspondence and the
implementation-only oracle, and records violations (DESIGN.md section 5/6)."""
import os
import re

from . import common as C
from . import gen as G
from .check import Ctx, audit_proofs, shrink
from .common import History, Rng, hexs, log

DIGEST = ("D64", "D128", "D256")
X86_BACKENDS = ("P", "S", "A", "D")


# ---------------------------------------------------------------------------------------------
def get_impl(ctx, name):
    for i in ctx.impls:
        if i.name == name:
            return i
    i = C.build_harness(name)
    ctx.impls.append(i)
    return i


def ensure_model(ctx):
    ok, out = C.build_driver()
    if not ok:
        raise C.BuildError("model build failed:\n" + out[-4000:])


def ctor(backend, reg, key, force_ok=True):
    """script line constructing backend in reg; S/A use the unsafe force_new (the host supports both)"""
    op = "fnew" if backend in ("S", "A") else "new"
    return "%s %d %s %s" % (op, reg, backend, G.keystr(key))


def restore_op(backend):
    return "frestorefrom" if backend in ("S", "A") else "restorefrom"


def run_dynamic(ctx, impl, hists, oracle, keep, use_model=True, addr=0, label=""):
    """Run on implementation (and model); apply the implementation-only oracle to every history.
    Returns (oracle_failures [(hist, msg)], mismatches [(hist, diff)], impl transcripts)."""
    hists = list(hists)
    if not hists:
        return [], [], {}
    itr, crashed = C.impl_run(impl, hists)
    mtr = C.model_run(hists, impl.profile(), impl.cfg_string(), addr) if use_model else None
    fails, mism = [], []
    for h in hists:
        il = itr.get(h.hid, ["MISSING"])
        ctx.note_case(h, nontrivial=h.meta.get("nontrivial", True))
        if il and il[-1].startswith("CRASH"):
            fails.append((h, "the process died (%s) while running this history" % il[-1]))
            continue
        msg = oracle(h, il)
        if msg:
            fails.append((h, msg))
        if use_model:
            a = C.filter_lines(il, keep)
            b = C.filter_lines(mtr.get(h.hid, ["MISSING"]), keep)
            if a != b:
                d = C.first_diff(a, b)
                mism.append((h, "line %d: implementation `%s` / model `%s`" % d))
    ctx.count("histories[%s%s]" % (impl.name, label), len(hists))
    return fails, mism, itr


def report(ctx, impl, fails, mism, oracle, keep, what, max_report=1, addr=0):
    """Turn oracle failures / correspondence mismatches into violations (with shrunk replays)."""
    for h, msg in fails[:max_report]:
        def still_fails(c):
            tr, _ = C.impl_run(impl, [c])
            il = tr.get(c.hid, [])
            if il and il[-1].startswith("CRASH"):
                return True
            if any(l.startswith("ILL") for l in il):
                return False
            return oracle(c, il) is not None
        small = shrink(h, still_fails) if "died" not in msg else h
        tr, _ = C.impl_run(impl, [small])
        ctx.violation("%s: %s" % (what, oracle(small, tr.get(small.hid, [])) or msg), small, impl.name,
                      extra_lines=["implementation transcript:"] + tr.get(small.hid, []))
    if not fails and mism:
        h, d = mism[0]

        def still_differs(c):
            tr, _ = C.impl_run(impl, [c])
            il = tr.get(c.hid, [])
            if any(l.startswith("ILL") for l in il):
                return False
            mt = C.model_run([c], impl.profile(), impl.cfg_string(), addr)
            return C.filter_lines(il, keep) != C.filter_lines(mt.get(c.hid, []), keep)
        small = shrink(h, still_differs, budget=40)
        tr, _ = C.impl_run(impl, [small])
        mt = C.model_run([small], impl.profile(), impl.cfg_string(), addr)
        ctx.violation("correspondence model/implementation no longer holds for %s (%d of the generated histories "
                      "differ; first: %s); the property's oracle found no failing input" % (what, len(mism), d),
                      small, impl.name, no_input=True, tag="corr",
                      extra_lines=["implementation transcript:"] + tr.get(small.hid, []) +
                                  ["model transcript:"] + mt.get(small.hid, []))


def proof_gate(ctx, prop_file, theorems):
    """Proof audit. A failure is reported after the dynamic search (no-failing-input-found unless the
    search finds an input)."""
    if not os.path.exists(os.path.join(C.COQ, prop_file)):
        ctx.proof["ok"] = None
        return True
    ok = audit_proofs(ctx, prop_file, theorems)
    if not ok:
        log("proof audit failed at %s\n%s" % (ctx.proof.get("failed_at"), ctx.proof["log"][-1500:]))
    return ok


def proof_verdict(ctx, ok):
    if not ok and not ctx.violations:
        ctx.violation("proof obligation no longer checks: %s\n%s" % (ctx.proof.get("failed_at"), ctx.proof["log"][-1200:]),
                      None, no_input=True, tag="proof")


def corpus_hists(pid, start_id=900000):
    out = []
    d = os.path.join(C.CORPUS, pid)
    if not os.path.isdir(d):
        return out
    for i, fn in enumerate(sorted(os.listdir(d))):
        if not fn.endswith(".hw"):
            continue
        lines = [l.rstrip("\n") for l in open(os.path.join(d, fn)) if l.strip() and not l.startswith("#") and not l.startswith("H ")]
        out.append(History(start_id + i, lines, {"corpus": fn}))
    return out


def digests(lines):
    return [l for l in lines if l.split(" ", 1)[0] in DIGEST or l.startswith("FIN ")]


def has_panic(lines):
    return any(l in ("PANIC",) or l.startswith("CRASH") for l in lines)


# ---------------------------------------------------------------------------------------------
# C01  portable = HighwayHash specification
def c01(ctx):
    ctx.nontrivial_rule = ("one history = new PortableHash(key); hash<w>(data) (and append+finalize); non-trivial = "
                           "distinct script; lengths 0..130 exhaustively x byte patterns {uniform, >=0x80, 00, ff, counting, "
                           "one-hot}, larger lengths, keys {zero, reference, ones, one-hot, high-bit, random}, all widths. "
                           "Oracle: Spec.HH extracted from Coq (pinned by the published vectors).")
    ok = proof_gate(ctx, "theories/Properties/C01.v", ["C01_portable_is_highwayhash", "C01_pure_function"])
    ensure_model(ctx)
    rng = Rng(ctx.seed).fork("C01")
    cases = []   # (width, key, data)
    lens = list(G.LENS_SMALL) + G.LENS_MED + (G.LENS_BIG if ctx.tier == "thorough" else [4097])
    for n in lens:
        for mode in (0, 1, 2, 3, 4):
            if n > 300 and mode in (2, 3):
                continue
            w = G.WIDTHS[(n + mode) % 3]
            cases.append((w, G.rand_key(rng) if mode < 2 else G.REF_KEY, rng.bytes(n, mode)))
    for n in range(1, 33):                       # one hot byte at each position of each remainder class
        for pos in (0, n // 2, n - 1):
            cases.append((G.WIDTHS[(n + pos) % 3], G.DOC_KEY, G.hot_byte(n, pos, 0x80 | (pos & 0x7F))))
    for i in range(64 if ctx.tier == "quick" else 256):   # one-hot keys
        k = [0, 0, 0, 0]
        k[(i * 4) % 256 // 64] = 1 << ((i * 4 + i // 64) % 64)
        cases.append((G.WIDTHS[i % 3], tuple(k), rng.bytes(rng.below(70), 1)))
    for lane in range(4):                        # carry boundaries of the length injection / rotation, per lane
        for e in G.EDGE_LANES:
            for target in (0, 1):
                k = [rng.next() for _ in range(4)]
                k[lane] = (G.INIT0[lane] ^ e) if target == 0 else G.rot32(G.INIT1[lane] ^ e)
                n = 1 + rng.below(31)
                cases.append((G.WIDTHS[(lane + n) % 3], tuple(k), rng.bytes(n, rng.below(2))))
    reps = 300 if ctx.tier == "quick" else 20000
    for i in range(reps):
        n = rng.choice(G.LENS_SMALL + [rng.below(700)])
        cases.append((rng.choice(G.WIDTHS), G.rand_key(rng), G.rand_data(rng, n)))
    hists = []
    for i, (w, k, d) in enumerate(cases):
        if i % 2 == 0:
            lines = ["new 0 P %s" % G.keystr(k), "hash%s 0 %s" % (w, hexs(d))]
        else:
            lines = ["new 0 P %s" % G.keystr(k), "append 0 %s" % hexs(d), "fin%s 0" % w]
        hists.append(History(i, lines, {"len": len(d), "w": w}))
        ctx.count("len%%32=%d" % (len(d) % 32))
        ctx.count("packets=%s" % ("0" if len(d) < 32 else "1" if len(d) < 64 else "2+"))
    spec = C.spec_run([(int(w), k, d) for (w, k, d) in cases])
    spec_by = {i: spec[i] for i in range(len(cases))}

    def oracle(h, il):
        want = spec_by.get(h.hid)
        if want is None:       # shrunk candidate: recompute
            if not h.lines[0].startswith("new") or not h.lines[-1].startswith(("hash", "fin")):
                return None
            k = tuple(int(x, 16) for x in h.lines[0].split()[3:7])
            t = h.lines[-1].split()
            if t[0].startswith("hash"):
                d = bytes.fromhex(t[2]) if t[2] != "-" else b""
                w = t[0][4:]
            else:
                a = [l.split() for l in h.lines if l.startswith("append")]
                d = b"".join(bytes.fromhex(x[2]) if x[2] != "-" else b"" for x in a)
                w = t[0][3:]
            want = C.spec_run([(int(w), k, d)])[0]
        got = digests(il)
        if got != [want]:
            return "portable digest %s differs from the HighwayHash specification %s" % (got, want)
        return None

    for name in (("dev", "release")):
        impl = get_impl(ctx, name)
        fails, mism, _ = run_dynamic(ctx, impl, corpus_hists("C01") + hists, oracle, DIGEST + ("PANIC", "FAULT"))
        report(ctx, impl, fails, mism, oracle, DIGEST + ("PANIC", "FAULT"), "PortableHash vs Spec.HH")
    proof_verdict(ctx, ok)


# ---------------------------------------------------------------------------------------------
# C05  streaming invariance
def c05(ctx):
    ctx.nontrivial_rule = ("one history = the same bytes fed to register 0 in chunks (append / write / hwrite / write_all / "
                           "io::copy) and to register 1 by the one-shot helper, same backend and key, then the digests of both; "
                           "exhaustive two-step skeleton: buffer fill 0..31 x next chunk length 0..97, all four x86 hasher types, "
                           "plus random k-partitions with empty chunks; non-trivial = distinct script with >= 1 non-empty chunk")
    ok = proof_gate(ctx, "theories/Properties/C05.v", ["C05_streaming_invariance"])
    ensure_model(ctx)
    rng = Rng(ctx.seed).fork("C05")
    hists = []
    hid = 0
    base = rng.bytes(200, 1)
    for b in X86_BACKENDS:
        for f in range(32):
            for c in range(98):
                if ctx.tier == "quick" and b != "P" and (f * 98 + c) % 3 != (ord(b) % 3):
                    continue
                key = G.DOC_KEY
                w = G.WIDTHS[(f + c) % 3]
                d = base[:f + c]
                op = G.FEED_OPS_STD[(f + c + hid) % len(G.FEED_OPS_STD)]
                lines = [ctor(b, 0, key), ctor(b, 1, key),
                         "append 0 %s" % hexs(d[:f]), "%s 0 %s" % (op, hexs(d[f:])),
                         "fin%s 0" % w, "hash%s 1 %s" % (w, hexs(d))]
                hists.append(History(hid, lines, {"fill": f, "chunk": c, "backend": b, "nontrivial": f + c > 0}))
                hid += 1
    nrand = 600 if ctx.tier == "quick" else 40000
    for i in range(nrand):
        b = rng.choice(X86_BACKENDS)
        key = G.rand_key(rng)
        n = rng.choice(G.LENS_SMALL + G.LENS_MED) if rng.below(8) else rng.below(3000)
        d = G.rand_data(rng, n)
        chunks = G.partition(rng, d, maxchunks=2 + rng.below(8))
        w = rng.choice(G.WIDTHS)
        lines = [ctor(b, 0, key), ctor(b, 1, key)] + G.feed_lines(rng, 0, chunks) + ["fin%s 0" % w, "hash%s 1 %s" % (w, hexs(d))]
        hists.append(History(hid, lines, {"backend": b, "chunks": len(chunks), "nontrivial": n > 0}))
        ctx.count("chunks=%d" % min(len(chunks), 9))
        hid += 1
    for i in range(20 if ctx.tier == "quick" else 400):     # all-singletons
        b = X86_BACKENDS[i % 4]
        n = 1 + rng.below(100)
        d = G.rand_data(rng, n)
        lines = [ctor(b, 0, G.REF_KEY), ctor(b, 1, G.REF_KEY)] + ["append 0 %02x" % x for x in d] + ["fin64 0", "hash64 1 %s" % hexs(d)]
        hists.append(History(hid, lines, {"backend": b, "singletons": n}))
        hid += 1

    def oracle(h, il):
        ds = digests(il)
        if has_panic(il):
            return "panic"
        if sum(1 for l in h.lines if l.startswith(("fin", "hash"))) != 2:
            return None
        if len(ds) != 2 or ds[0] != ds[1]:
            return "chunked feeding gives %s but the one-shot helper gives %s" % (ds[:1], ds[1:])
        return None

    keep = DIGEST + ("PANIC", "FAULT", "W")
    for name in ("dev", "release"):
        impl = get_impl(ctx, name)
        fails, mism, _ = run_dynamic(ctx, impl, corpus_hists("C05") + hists, oracle, keep)
        report(ctx, impl, fails, mism, oracle, keep, "streaming invariance (chunked vs one-shot)")
    proof_verdict(ctx, ok)


def replay(pid, path):
    """Re-run a replay script on the implementation (dev and release) and on the model; print both."""
    lines = [l.rstrip("\n") for l in open(path)]
    for l in lines:
        if l.startswith("#"):
            print(l)
    body = [l for l in lines if l.strip() and not l.startswith("#") and not l.startswith("H ")]
    if not body:
        print("(no script in this replay: it names a proof obligation or build step; re-run the check)")
        return 0
    h = History(0, body)
    C.build_driver()
    for name in ("dev", "release"):
        impl = C.build_harness(name)
        tr, _ = C.impl_run(impl, [h])
        mt = C.model_run([h], impl.profile(), impl.cfg_string())
        print("--- implementation (%s)" % name)
        print("\n".join(tr.get(0, [])))
        print("--- model (%s)" % name)
        print("\n".join(mt.get(0, [])))
    return 0


PROPS = {"C01": c01, "C05": c05}
