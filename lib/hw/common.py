"""Shared machinery for the highway-rs checks: builds, running the implementation and the extracted
model on operation scripts, transcript comparison, shrinking, evidence, verdicts."""
import hashlib
import json
import os
import re
import shutil
import subprocess
import sys
import tempfile
import time
from concurrent.futures import ThreadPoolExecutor

ROOT = os.path.dirname(os.path.dirname(os.path.dirname(os.path.abspath(__file__))))
REPO = os.environ.get("HW_REPO", "/repo")
CACHE = os.path.join(ROOT, ".cache")
COQ = os.path.join(ROOT, "coq")
OCAML = os.path.join(ROOT, "ocaml")
EVID = os.path.join(ROOT, "evidence")
REPLAY = os.path.join(EVID, "replay")
CORPUS = os.path.join(ROOT, "corpus")
NCPU = int(os.environ.get("HW_JOBS", "16"))
GUARD_CFG = "highway_verif"

ENV = dict(os.environ)
ENV.update({"CARGO_NET_OFFLINE": "true", "CARGO_TERM_COLOR": "never"})


def log(*a):
    print(*a, file=sys.stderr, flush=True)


def sh(cmd, cwd=None, env=None, timeout=None, check=False, input=None):
    e = dict(ENV)
    if env:
        e.update(env)
    p = subprocess.run(cmd, cwd=cwd, env=e, timeout=timeout, input=input,
                       stdout=subprocess.PIPE, stderr=subprocess.STDOUT, text=True,
                       shell=isinstance(cmd, str))
    if check and p.returncode != 0:
        raise RuntimeError("command failed (%d): %s\n%s" % (p.returncode, cmd, p.stdout[-4000:]))
    return p.returncode, p.stdout


# ------------------------------------------------------------------ PRNG (every random choice derives from it)
class Rng:
    MASK = (1 << 64) - 1

    def __init__(self, seed):
        self.s = (seed * 0x9E3779B97F4A7C15 + 0x1234567) & self.MASK

    def next(self):
        self.s = (self.s + 0x9E3779B97F4A7C15) & self.MASK
        z = self.s
        z = ((z ^ (z >> 30)) * 0xBF58476D1CE4E5B9) & self.MASK
        z = ((z ^ (z >> 27)) * 0x94D049BB133111EB) & self.MASK
        return z ^ (z >> 31)

    def below(self, n):
        return self.next() % n

    def choice(self, xs):
        return xs[self.below(len(xs))]

    def bytes(self, n, mode=0):
        out = bytearray(n)
        if mode == 2:
            return bytes(out)
        if mode == 3:
            return bytes([0xFF]) * n
        if mode == 4:
            return bytes((i * 7 + 1) & 0xFF for i in range(n))
        i = 0
        while i < n:
            x = self.next()
            for k in range(8):
                if i < n:
                    b = (x >> (8 * k)) & 0xFF
                    out[i] = (b | 0x80) if mode == 1 else b
                    i += 1
        return bytes(out)

    def fork(self, tag):
        h = hashlib.sha256(("%d/%s" % (self.s, tag)).encode()).digest()
        return Rng(int.from_bytes(h[:8], "little"))


def hexs(b):
    return b.hex() if len(b) else "-"


# ------------------------------------------------------------------ histories
class History:
    __slots__ = ("hid", "lines", "meta")

    def __init__(self, hid, lines, meta=None):
        self.hid = hid
        self.lines = lines
        self.meta = meta or {}

    def text(self):
        return "H %d\n%s\n" % (self.hid, "\n".join(self.lines))


def script_text(hists):
    return "".join(h.text() for h in hists)


def split_transcript(text):
    """-> dict hid -> list of lines; also returns the order"""
    out = {}
    cur = None
    for line in text.splitlines():
        if line.startswith("H "):
            cur = int(line[2:])
            out[cur] = []
        elif cur is not None:
            out[cur].append(line)
    return out


# ------------------------------------------------------------------ builds
def coq_make(targets=None, timeout=3000):
    """Full .vo build of the given targets (or everything). Returns (ok, log)."""
    if not os.path.exists(os.path.join(COQ, "Makefile")):
        sh("coq_makefile -f _CoqProject -o Makefile", cwd=COQ, check=True)
    cmd = ["make", "-j%d" % NCPU] + (targets or [])
    rc, out = sh(cmd, cwd=COQ, timeout=timeout)
    return rc == 0, out


def build_driver():
    """Extract (via Extract.vo) and compile the OCaml driver when stale."""
    ok, out = coq_make(["theories/Extract.vo"])
    if not ok:
        return False, out
    drv = os.path.join(OCAML, "driver")
    srcs = [os.path.join(OCAML, f) for f in ("model.ml", "model.mli", "driver.ml")]
    if os.path.exists(drv) and all(os.path.getmtime(s) <= os.path.getmtime(drv) for s in srcs):
        return True, ""
    rc, o = sh("ocamlfind ocamlopt -w -a model.mli model.ml driver.ml -o driver", cwd=OCAML, timeout=600)
    return rc == 0, o


CONFIGS = {
    # name: (cargo profile, std?, RUSTFLAGS target-feature part)
    "dev": ("dev", True, ""),
    "release": ("release", True, ""),
    "dev-nostd": ("dev", False, ""),
    "release-nostd": ("release", False, ""),
    "dev-sse41": ("dev", True, "-C target-feature=+sse4.1"),
    "release-sse41": ("release", True, "-C target-feature=+sse4.1"),
    "dev-avx2": ("dev", True, "-C target-feature=+avx2"),
    "release-avx2": ("release", True, "-C target-feature=+avx2"),
    "dev-sse41-noavx2": ("dev", True, "-C target-feature=+sse4.1,-avx2"),
    "release-sse41-noavx2": ("release", True, "-C target-feature=+sse4.1,-avx2"),
    "dev-native": ("dev", True, "-C target-cpu=native"),
    "release-native": ("release", True, "-C target-cpu=native"),
    "dev-nostd-sse41": ("dev", False, "-C target-feature=+sse4.1"),
    "release-nostd-sse41": ("release", False, "-C target-feature=+sse4.1"),
    "dev-nostd-avx2": ("dev", False, "-C target-feature=+avx2"),
    "release-nostd-avx2": ("release", False, "-C target-feature=+avx2"),
    "dev-nostd-sse41-noavx2": ("dev", False, "-C target-feature=+sse4.1,-avx2"),
    "release-nostd-sse41-noavx2": ("release", False, "-C target-feature=+sse4.1,-avx2"),
    "dev-nostd-native": ("dev", False, "-C target-cpu=native"),
    "release-nostd-native": ("release", False, "-C target-cpu=native"),
}
PERSISTENT = ("dev", "release")   # target dirs kept in .cache; the rest are built in a temp dir and removed


class Impl:
    """A built harness binary for one build configuration."""

    def __init__(self, name, path, info, tmpdir=None):
        self.name = name
        self.path = path
        self.info = info          # dict from the CFG line
        self.tmpdir = tmpdir

    def profile(self):
        return "dev" if self.info.get("dbg") == "1" else "release"

    def cfg_string(self):
        i = self.info
        return ",".join([i["arch"], i["std"], i["tf_avx2"], i["tf_sse41"], i["det_avx2"], i["det_sse41"], "0"])

    def cleanup(self):
        if self.tmpdir:
            shutil.rmtree(self.tmpdir, ignore_errors=True)
            self.tmpdir = None


def build_harness(name):
    prof, std, tf = CONFIGS[name]
    hdir = os.path.join(ROOT, "harness")
    lock = os.path.join(hdir, "Cargo.lock")
    if not os.path.exists(lock):
        shutil.copy(os.path.join(REPO, "Cargo.lock"), lock)
    tmp = None
    if name in PERSISTENT:
        tdir = os.path.join(CACHE, "target")
    else:
        tmp = tempfile.mkdtemp(prefix="hwcfg-", dir=CACHE)
        tdir = tmp
    flags = ("--cfg %s %s" % (GUARD_CFG, tf)).strip()
    cmd = ["cargo", "build", "--offline", "--quiet"]
    if prof == "release":
        cmd.append("--release")
    if not std:
        cmd += ["--no-default-features"]
    rc, out = sh(cmd, cwd=hdir, env={"RUSTFLAGS": flags, "CARGO_TARGET_DIR": tdir}, timeout=1200)
    if rc != 0:
        if tmp:
            shutil.rmtree(tmp, ignore_errors=True)
        raise BuildError("harness build failed for %s:\n%s" % (name, out[-6000:]))
    path = os.path.join(tdir, "debug" if prof == "dev" else "release", "hwharness")
    rc, out = sh([path, "info"], timeout=60)
    info = dict(kv.split("=") for kv in out.strip().split()[1:])
    return Impl(name, path, info, tmp)


class BuildError(Exception):
    pass


# ------------------------------------------------------------------ running
def _write_tmp(text, suffix=".hw"):
    os.makedirs(os.path.join(CACHE, "tmp"), exist_ok=True)
    fd, p = tempfile.mkstemp(suffix=suffix, dir=os.path.join(CACHE, "tmp"))
    with os.fdopen(fd, "w") as f:
        f.write(text)
    return p


def impl_run(impl, hists, threads=1, timeout=1800):
    """Run histories on the implementation. Returns (dict hid->lines, crashed_hid or None)."""
    result = {}
    crashed = None
    todo = list(hists)
    while todo:
        p = _write_tmp(script_text(todo))
        try:
            pr = subprocess.run([impl.path, "run", p, str(threads)], stdout=subprocess.PIPE,
                                stderr=subprocess.PIPE, timeout=timeout, env=ENV)
        finally:
            os.unlink(p)
        tr = split_transcript(pr.stdout.decode("utf-8", "replace"))
        if pr.returncode == 0:
            result.update(tr)
            break
        # the process died (signal): the last announced history is the one that crashed
        ids = [h.hid for h in todo]
        seen = [i for i in ids if i in tr]
        if not seen:
            crashed = ids[0]
            result[crashed] = ["CRASH rc=%d" % pr.returncode]
            todo = todo[1:]
            continue
        last = seen[-1]
        for i in seen[:-1]:
            result[i] = tr[i]
        result[last] = ["CRASH rc=%d" % pr.returncode]
        if crashed is None:
            crashed = last
        k = ids.index(last)
        todo = todo[k + 1:]
    return result, crashed


def impl_stress(impl, hists, threads=16, reps=10, timeout=1800):
    """Every thread runs every history `reps` times concurrently; returns (dict hid -> (got lines, expected lines)) for the
    histories whose transcript deviated from the single-threaded pass at least once, and the summary line."""
    p = _write_tmp(script_text(hists))
    try:
        pr = subprocess.run([impl.path, "stress", p, str(threads), str(reps)], stdout=subprocess.PIPE,
                            stderr=subprocess.PIPE, timeout=timeout, env=ENV)
    finally:
        os.unlink(p)
    tr = split_transcript(pr.stdout.decode("utf-8", "replace"))
    summary = " ".join(tr.pop(999999999, ["STRESS died rc=%d" % pr.returncode]))
    dev = {}
    for hid, lines in tr.items():
        if "EXPECTED" in lines:
            k = lines.index("EXPECTED")
            dev[hid] = (lines[1:k], lines[k + 1:])
    return dev, summary


def model_run(hists, profile, cfg, addr=0, timeout=3000):
    """Run histories on the extracted model, sharded over the cores. Returns dict hid->lines."""
    drv = os.path.join(OCAML, "driver")
    hists = list(hists)
    if not hists:
        return {}
    nshard = max(1, min(NCPU, len(hists) // 8 or 1))
    # balance by script size
    shards = [[] for _ in range(nshard)]
    sizes = [0] * nshard
    for h in sorted(hists, key=lambda h: -sum(len(l) for l in h.lines)):
        k = sizes.index(min(sizes))
        shards[k].append(h)
        sizes[k] += sum(len(l) for l in h.lines) + 50

    def one(sh_hists):
        p = _write_tmp(script_text(sh_hists))
        try:
            pr = subprocess.run("ulimit -s unlimited 2>/dev/null; exec %s run %s %s %s %d" % (drv, p, profile, cfg, addr),
                                shell=True, stdout=subprocess.PIPE, stderr=subprocess.PIPE, timeout=timeout)
        finally:
            os.unlink(p)
        if pr.returncode != 0:
            raise RuntimeError("model driver failed: " + pr.stderr.decode()[-2000:])
        return split_transcript(pr.stdout.decode())

    out = {}
    with ThreadPoolExecutor(max_workers=nshard) as ex:
        for tr in ex.map(one, shards):
            out.update(tr)
    return out


def spec_run(cases, timeout=3000):
    """cases: list of (width, key tuple, bytes) -> list of digest lines from the extracted Spec.HH"""
    drv = os.path.join(OCAML, "driver")
    if not cases:
        return []
    nshard = max(1, min(NCPU, len(cases) // 16 or 1))
    idx = [list(range(k, len(cases), nshard)) for k in range(nshard)]

    def one(ix):
        text = "".join("%d %x %x %x %x %s\n" % (cases[i][0], *cases[i][1], hexs(cases[i][2])) for i in ix)
        p = _write_tmp(text, ".spec")
        try:
            pr = subprocess.run("ulimit -s unlimited 2>/dev/null; exec %s spec %s" % (drv, p), shell=True,
                                stdout=subprocess.PIPE, stderr=subprocess.PIPE, timeout=timeout)
        finally:
            os.unlink(p)
        if pr.returncode != 0:
            raise RuntimeError("spec driver failed: " + pr.stderr.decode()[-2000:])
        return pr.stdout.decode().splitlines()

    res = [None] * len(cases)
    with ThreadPoolExecutor(max_workers=nshard) as ex:
        for ix, lines in zip(idx, ex.map(one, idx)):
            for i, l in zip(ix, lines):
                res[i] = l
    return res


# ------------------------------------------------------------------ comparison helpers
def filter_lines(lines, keep):
    return [l for l in lines if l.split(" ", 1)[0] in keep]


def first_diff(a, b):
    for i, (x, y) in enumerate(zip(a, b)):
        if x != y:
            return i, x, y
    if len(a) != len(b):
        i = min(len(a), len(b))
        return i, (a[i] if i < len(a) else "<end>"), (b[i] if i < len(b) else "<end>")
    return None
