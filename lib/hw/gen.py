"""Generators for operation scripts.  Every random choice comes from common.Rng (seeded by VERIF_SEED)."""
from .common import History, Rng, hexs

REF_KEY = (0x0706050403020100, 0x0F0E0D0C0B0A0908, 0x1716151413121110, 0x1F1E1D1C1B1A1918)
ZERO_KEY = (0, 0, 0, 0)
ONES_KEY = ((1 << 64) - 1,) * 4
DOC_KEY = (1, 2, 3, 4)
HIBIT_KEY = (0x8000000080000000, 0xFFFFFFFF00000000, 0x00000000FFFFFFFF, 0x8000000000000001)

LENS_SMALL = list(range(0, 131))
LENS_MED = [255, 256, 257, 1023, 1024, 1025]
LENS_BIG = [4095, 4096, 4097, 65535, 65536, 65537]
CHUNK_LENS = [0, 1, 2, 3, 4, 7, 8, 15, 16, 17, 31, 32, 33, 63, 64, 65, 96, 97, 128]

WIDTHS = ("64", "128", "256")


def keystr(k):
    return "%x %x %x %x" % tuple(k)


INIT0 = (0xdbe6d5d5fe4cce2f, 0xa4093822299f31d0, 0x13198a2e03707344, 0x243f6a8885a308d3)
INIT1 = (0x3bd39e10cb0ef593, 0xc0acf169b5f18a8c, 0xbe5466cf34e90c6c, 0x452821e638d01377)
M64 = (1 << 64) - 1
EDGE_LANES = [0x00000000FFFFFFFF, 0xFFFFFFFFFFFFFFFF, 0xFFFFFFFF00000000, 0x00000000FFFFFFF0, 0xFFFFFFFEFFFFFFFF,
              0x7FFFFFFFFFFFFFFF, 0x8000000000000000, 0x0000000080000000, 0x00000000FFFFFFE1, 0, 1, 0x0000000100000000,
              0xFFFFFFFF7FFFFFFF, 0x3FFFFFFFFFFFFFFF, 0xC000000000000000]


def rot32(x):
    return ((x << 32) | (x >> 32)) & M64


def vector_key(e, target_v1=False):
    """the key that makes ALL FOUR lanes of the initial v0 (or v1) equal to e (e = 0: v0 is the zero vector)"""
    return tuple(rot32(INIT1[i] ^ e) if target_v1 else (INIT0[i] ^ e) for i in range(4))


SPECIAL_KEYS = [vector_key(e, t) for e in (0, M64, 0xFFFFFFFF, 0xFFFFFFFF00000000, 1 << 63, 1) for t in (False, True)]


def boundary_key(rng):
    """a key that puts chosen edge values into the initial v0 (= init0 ^ key) or v1 (= init1 ^ rot32(key)) lanes,
    so that carries across bit 32 / bit 64 and sign bits are exercised by the first remainder step"""
    if rng.below(3) == 0:
        return rng.choice(SPECIAL_KEYS)
    k = []
    target_v1 = rng.below(3) == 0
    for i in range(4):
        e = rng.choice(EDGE_LANES)
        if rng.below(4) == 0:
            e = (e - rng.below(32)) & M64
        k.append(rot32(INIT1[i] ^ e) if target_v1 else (INIT0[i] ^ e))
    return tuple(k)


def rand_key(rng):
    m = rng.below(11)
    if m >= 8:
        return boundary_key(rng)
    if m == 0:
        return ZERO_KEY
    if m == 1:
        return REF_KEY
    if m == 2:
        return ONES_KEY
    if m == 3:
        i = rng.below(256)
        k = [0, 0, 0, 0]
        k[i // 64] = 1 << (i % 64)
        return tuple(k)
    if m == 4:
        return HIBIT_KEY
    return tuple(rng.next() for _ in range(4))


def rand_data(rng, n):
    return rng.bytes(n, rng.choice([0, 0, 1, 1, 2, 3, 4]))


def hot_byte(n, pos, val=0xFF):
    b = bytearray(n)
    if n:
        b[pos % n] = val
    return bytes(b)


def partition(rng, data, maxchunks=8):
    """random partition, biased to the interesting chunk lengths, with empty chunks"""
    out = []
    i = 0
    while i < len(data) and len(out) < maxchunks - 1:
        c = rng.choice(CHUNK_LENS)
        c = min(c, len(data) - i)
        out.append(data[i:i + c])
        i += c
    out.append(data[i:])
    if rng.below(3) == 0:
        out.insert(rng.below(len(out) + 1), b"")
    return out


FEED_OPS_STD = ("append", "append", "write", "hwrite", "writeall", "iocopy")
FEED_OPS_NOSTD = ("append", "append", "hwrite")


def feed_lines(rng, reg, chunks, ops=FEED_OPS_STD):
    return ["%s %d %s" % (rng.choice(ops), reg, hexs(c)) for c in chunks]


def rand_blob(rng, valid_bias=True):
    """a 164-byte checkpoint-shaped blob: random lanes, random buffer, count field over the interesting values"""
    lanes = rng.bytes(128, rng.choice([0, 0, 1, 2, 3]))
    buf = rng.bytes(32, rng.choice([0, 1, 4]))
    m = rng.below(12)
    if m < 5:
        cnt = rng.below(32)
    elif m == 5:
        cnt = 32
    elif m == 6:
        cnt = 33
    elif m == 7:
        cnt = rng.choice([255, 256, 1 << 16, 1 << 31, (1 << 32) - 1, (1 << 32) - 32, 64, 31 + (1 << 8)])
    elif m == 8:
        cnt = rng.next() & 0xFFFFFFFF
    elif m == 9:
        cnt = 31
    elif m == 10:
        cnt = 0
    else:
        cnt = rng.choice([16, 17, 28, 29, 30, 3, 4, 7])
    return lanes + buf + cnt.to_bytes(4, "little"), cnt
