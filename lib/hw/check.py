"""Check context: proof audit, correspondence, oracle verdicts, shrinking, evidence and exit codes."""
import glob
import json
import os
import re
import sys
import time

from . import common as C
from .common import History, log

ALLOWED_AXIOMS = set()   # expected: every property theorem is closed under the global context

FORBIDDEN = re.compile(r"\b(Admitted|admit|Axiom|Axioms|Parameter|Parameters|Conjecture|Conjectures|"
                       r"Unset\s+Guard|bypass_check|Unset\s+Positivity|Unset\s+Universe|type-in-type|"
                       r"impredicative-set|Admit\s+Obligations|native_compute)\b")


class Ctx:
    def __init__(self, pid, tier, seed, level):
        self.pid = pid
        self.tier = tier
        self.seed = seed
        self.level = level
        self.t0 = time.time()
        self.evaluations = 0
        self.distinct = set()
        self.nontrivial_rule = ""
        self.samples = []
        self.dist = {}
        self.violations = []          # (message, replay_path, no_input)
        self.known = []
        self.proof = {"obligations": 0, "discharged": 0, "theorems": [], "assumptions": {}, "files": [],
                      "checker_cmd": "", "ok": None, "log": ""}
        self.extra = {}
        self.assumptions = []
        self.impls = []
        self.known_findings = load_known_findings()
        os.makedirs(C.REPLAY, exist_ok=True)

    # ---------------------------------------------------------------- bookkeeping
    def count(self, key, n=1):
        self.dist[key] = self.dist.get(key, 0) + n

    def note_case(self, hist, nontrivial=True):
        self.evaluations += 1
        if nontrivial:
            self.distinct.add(hash("\n".join(hist.lines)))
        if len(self.samples) < 4 and nontrivial and len("\n".join(hist.lines)) < 1500:
            self.samples.append({"history": hist.lines, "meta": {k: str(v) for k, v in hist.meta.items()}})

    # ---------------------------------------------------------------- violations
    def replay_path(self, tag):
        return os.path.join(C.REPLAY, "%s-%s-%d.hw" % (self.pid, tag, len(self.violations)))

    def violation(self, message, hist=None, config=None, no_input=False, tag="v", extra_lines=None):
        """Record a violation; writes the replay file."""
        key = finding_key(self.pid, message, hist)
        for kf in self.known_findings:
            if kf["kind"] == "known" and kf["property"] == self.pid and kf["key"] == key:
                self.known.append("KNOWN-FINDING: property=%s %s" % (self.pid, kf["what"]))
                return
        path = self.replay_path(tag)
        with open(path, "w") as f:
            f.write("# property=%s\n# what: %s\n" % (self.pid, message.replace("\n", "\n#   ")))
            if config:
                f.write("# config=%s\n" % config)
            if no_input:
                f.write("# no failing input was found; the item that no longer checks is named above\n")
            for l in extra_lines or []:
                f.write("# %s\n" % l)
            if hist is not None:
                f.write(hist.text())
        self.violations.append((message, path, no_input))

    # ---------------------------------------------------------------- finishing
    def run_coqchk(self):
        mods = sorted(set(getattr(self, "coqchk_mods", [])))
        if self.tier != "thorough" or not mods or not self.proof.get("ok"):
            return
        rc, out = C.sh(["coqchk", "-o", "-silent", "-Q", "theories", "HW", "-Q", "gen", "HWGen"] + mods, cwd=C.COQ, timeout=9000)
        ax = re.search(r"\* Axioms:\s*(.*?)\n\s*\n", out, re.S)
        self.extra["coqchk"] = {"cmd": "coqchk -o -silent " + " ".join(mods), "exit": rc, "axioms": (ax.group(1).strip() if ax else "?")}
        if rc != 0 or not ax or ax.group(1).strip() != "<none>":
            self.proof["ok"] = False
            self.proof["log"] = out[-3000:]
            self.proof["failed_at"] = "coqchk " + " ".join(mods)
            self.violation("the independent checker coqchk does not accept %s (exit %s, axioms: %s)" % (" ".join(mods), rc, ax.group(1).strip() if ax else "?"),
                           None, no_input=True, tag="coqchk", extra_lines=out[-1500:].splitlines())

    def finish(self):
        self.run_coqchk()
        wall = time.time() - self.t0
        for i in self.impls:
            i.cleanup()
        cov = {
            "evaluations": self.evaluations,
            "distinct_nontrivial": len(self.distinct),
            "rule": self.nontrivial_rule,
            "samples": self.samples or [{"note": "no dynamic cases in this tier"}],
            "input_distribution": self.dist,
        }
        if self.proof["ok"] is not None:
            # the ok flag is the ground truth: every obligation counted is discharged iff every audited file checked
            if self.proof["ok"] and not self.proof.get("facts_failed"):
                self.proof["discharged"] = self.proof["obligations"]
            else:
                self.proof["discharged"] = min(self.proof["discharged"], max(0, self.proof["obligations"] - 1))
            cov.update({
                "obligations": self.proof["obligations"],
                "discharged": self.proof["discharged"],
                "checker_cmd": self.proof["checker_cmd"],
                "trusted_base": TRUSTED_BASE,
                "theorems": self.proof["theorems"],
                "print_assumptions": self.proof["assumptions"],
                "proof_files": self.proof["files"],
            })
        cov.update(self.extra)
        ev = {
            "property_id": self.pid,
            "tier": self.tier,
            "seed": self.seed,
            "level": self.level,
            "coverage": cov,
            "assumptions": self.assumptions,
            "wall_s": round(wall, 2),
            "violations": len(self.violations),
        }
        os.makedirs(C.EVID, exist_ok=True)
        with open(os.path.join(C.EVID, "%s.json" % self.pid), "w") as f:
            json.dump(ev, f, indent=1)
        for k in self.known:
            print(k)
        for msg, path, no_input in self.violations:
            log("violation: " + msg.split("\n")[0])
            print("VIOLATION property=%s replay=%s%s" % (self.pid, path, " no-failing-input-found" if no_input else ""))
        sys.stdout.flush()
        log("[%s %s] %d evaluations, %d distinct, proof=%s, %d violations, %.1fs" % (
            self.pid, self.tier, self.evaluations, len(self.distinct), self.proof["ok"], len(self.violations), wall))
        return 1 if self.violations else 0


TRUSTED_BASE = [
    "Coq 8.16.1 kernel incl. the vm_compute reduction machine (no native_compute)",
    "no axioms: Print Assumptions of every property theorem is checked to be 'Closed under the global context'",
    "Spec.v as a transcription of Google's reference HighwayHash, pinned by the published test vectors evaluated in Coq",
    "Simd intrinsic semantics transcribed in X86.v / Neon.v / Wasm.v; Rust semantics of the constructs used",
    "extraction (ExtrOcamlBasic only; no Extract Constant), OCaml 4.13, ocaml/driver.ml",
    "correspondence machinery: Rust harnesses, this Python orchestrator, rustc/cargo, the host CPU, Miri",
    "tools/srcfacts (syn-based extractor) for the regenerated gen/*.v files: facts, ladders, dispatch tables, memory signature",
    "the source-to-AST translators rustlite.rs (portable.rs, internal.rs, and the whole of wasm.rs and aarch64.rs) and veclite.rs (SIMD kernels), the "
    "RustLite / VecLite interpreters (the meaning given to the Rust fragment, incl. the panics of each build profile) and the primitive "
    "tables mapping intrinsic names to model functions (for wasm.rs / aarch64.rs: RustLite.vprim / sprim, the 20 wasm32 and 26 NEON instructions the files use; raw-pointer loads "
    "of aarch64.rs read as checked loads from the byte array)",
]


# -------------------------------------------------------------------- known findings
def load_known_findings():
    out = []
    p = os.path.join(C.ROOT, "known_findings.txt")
    if not os.path.exists(p):
        return out
    for line in open(p):
        line = line.strip()
        if not line or line.startswith("#"):
            continue
        m = re.match(r"(fixed|known):\s+property=(\S+)\s+(?:key=(\S+)\s+)?(.*)", line)
        if m:
            out.append({"kind": m.group(1), "property": m.group(2), "key": m.group(3), "what": m.group(4)})
    return out


def finding_key(pid, message, hist):
    import hashlib
    h = hashlib.sha256()
    h.update(pid.encode())
    if hist is not None:
        h.update("\n".join(hist.lines).encode())
    else:
        h.update(message.encode())
    return h.hexdigest()[:16]


# -------------------------------------------------------------------- proof audit
def source_scan():
    """The development must contain no Admitted / Axiom / kernel-flag changes anywhere."""
    bad = []
    for p in sorted(glob.glob(os.path.join(C.COQ, "theories", "**", "*.v"), recursive=True) +
                    glob.glob(os.path.join(C.COQ, "gen", "*.v"))):
        txt = open(p).read()
        txt_nc = strip_comments(txt)
        for m in FORBIDDEN.finditer(txt_nc):
            line = txt_nc[:m.start()].count("\n") + 1
            bad.append("%s:%d: %s" % (os.path.relpath(p, C.ROOT), line, m.group(0)))
    return bad


def strip_comments(txt):
    out = []
    depth = 0
    i = 0
    n = len(txt)
    while i < n:
        if txt.startswith("(*", i):
            depth += 1
            i += 2
        elif txt.startswith("*)", i) and depth > 0:
            depth -= 1
            i += 2
        else:
            if depth == 0:
                out.append(txt[i])
            elif txt[i] == "\n":
                out.append("\n")
            i += 1
    return "".join(out)


THM = re.compile(r"^\s*(Theorem|Lemma|Corollary|Example|Fact|Proposition|Remark)\s+([A-Za-z0-9_']+)", re.M)


def cone_files(vfile):
    """.v files the given file depends on (transitively), from coqdep."""
    rc, out = C.sh(["coqdep", "-f", "_CoqProject", "-sort"] , cwd=C.COQ)
    order = out.split()
    # dependency map
    rc, out = C.sh(["coqdep", "-f", "_CoqProject"], cwd=C.COQ)
    deps = {}
    for line in out.splitlines():
        if ":" not in line:
            continue
        lhs, rhs = line.split(":", 1)
        tgt = [t for t in lhs.split() if t.endswith(".vo")]
        if not tgt:
            continue
        v = tgt[0][:-1]
        deps[v] = [d[:-1] for d in rhs.split() if d.endswith(".vo")]
    seen = set()
    stack = [vfile]
    while stack:
        v = stack.pop()
        if v in seen:
            continue
        seen.add(v)
        stack.extend(deps.get(v, []))
    return sorted(seen)


def audit_proofs(ctx, prop_file, theorems):
    """Build Properties/<pid>.vo (full .vo build), re-print the assumptions of each property theorem
    and scan the sources. Returns True when everything checks."""
    t0 = time.time()
    vo = prop_file + "o"
    ok, out = C.coq_make([vo])
    ctx.proof["checker_cmd"] = "make -C coq %s  &&  coqc Audit (Print Assumptions for %s)" % (vo, ", ".join(theorems))
    ctx.proof["theorems"] = theorems
    if not ok:
        ctx.proof["ok"] = False
        ctx.proof["log"] = out[-6000:]
        m = re.search(r'File "([^"]+)", line (\d+)', out)
        where = ("%s:%s" % (m.group(1), m.group(2))) if m else prop_file
        ctx.proof["failed_at"] = where
        return False
    files = cone_files(prop_file)
    ctx.proof["files"] = files
    nthm = 0
    for f in files:
        p = os.path.join(C.COQ, f)
        if os.path.exists(p):
            nthm += len(THM.findall(strip_comments(open(p).read())))
    ctx.proof["obligations"] = nthm
    bad = source_scan()
    if bad:
        ctx.proof["ok"] = False
        ctx.proof["log"] = "forbidden constructs: " + "; ".join(bad)
        ctx.proof["failed_at"] = bad[0]
        return False
    # Print Assumptions, re-run on every check
    mod = "HW." + prop_file[len("theories/"):-2].replace("/", ".")
    audit = "From HW Require Import Word.\nRequire Import %s.\n" % mod
    for t in theorems:
        audit += 'Print Assumptions %s.\n' % t
    os.makedirs(os.path.join(C.CACHE, "tmp"), exist_ok=True)
    ap = os.path.join(C.CACHE, "tmp", "Audit_%s.v" % ctx.pid)
    open(ap, "w").write(audit)
    rc, out = C.sh(["coqc", "-noglob", "-Q", "theories", "HW", "-Q", "gen", "HWGen", ap], cwd=C.COQ, timeout=600)
    for ext in ("vo", "vok", "vos", "glob"):
        try:
            os.unlink(ap[:-1] + ext)
        except OSError:
            pass
    if rc != 0:
        ctx.proof["ok"] = False
        ctx.proof["log"] = out[-4000:]
        ctx.proof["failed_at"] = "Audit_%s.v" % ctx.pid
        return False
    chunks = re.split(r"(?=Closed under the global context|Axioms:)", out)
    res = [c.strip() for c in chunks if c.strip()]
    closed = 0
    for t, r in zip(theorems, res):
        ctx.proof["assumptions"][t] = r.splitlines()[0] if r.startswith("Closed") else r
        if r.startswith("Closed"):
            closed += 1
        else:
            names = set(re.findall(r"^([A-Za-z0-9_.']+)\s*:", r, re.M))
            if names <= ALLOWED_AXIOMS:
                closed += 1
    if closed != len(theorems) or len(res) != len(theorems):
        ctx.proof["ok"] = False
        ctx.proof["log"] = out[-4000:]
        ctx.proof["failed_at"] = "Print Assumptions"
        return False
    if ctx.tier == "thorough":
        # the independent checker runs once per check, over all the audited modules together (finish()): each run re-checks the
        # whole cone of dependencies, which the modules of one check share
        if not hasattr(ctx, "coqchk_mods"):
            ctx.coqchk_mods = []
        ctx.coqchk_mods.append(mod)
    ctx.proof["discharged"] = nthm
    ctx.proof["ok"] = True
    ctx.extra["proof_wall_s"] = round(time.time() - t0, 2)
    return True


# -------------------------------------------------------------------- shrinking
def shrink(hist, fails, budget=80):
    """Greedy reduction of a failing history: drop lines, shorten and simplify data."""
    best = History(hist.hid, list(hist.lines), dict(hist.meta))
    tries = 0

    def attempt(lines):
        nonlocal best, tries
        tries += 1
        h = History(hist.hid + 100000000, lines, best.meta)   # fresh id: oracles must not use cached expectations
        try:
            if fails(h):
                best = h
                return True
        except Exception:
            pass
        return False

    changed = True
    while changed and tries < budget:
        changed = False
        # drop single lines (keep constructors that later lines need: fails() decides)
        i = len(best.lines) - 1
        while i >= 0 and tries < budget:
            cand = best.lines[:i] + best.lines[i + 1:]
            if cand and attempt(cand):
                changed = True
            i -= 1
        # shorten data arguments
        for i, l in enumerate(list(best.lines)):
            if tries >= budget:
                break
            t = l.split()
            if t and t[0] in ("append", "write", "hwrite", "writeall", "iocopy", "hash64", "hash128", "hash256") and len(t) > 2 and t[2] != "-":
                d = t[2]
                for nd in (d[: (len(d) // 4) * 2], d[: len(d) - 2], "00" * (len(d) // 2)):
                    if nd != d:
                        cand = list(best.lines)
                        cand[i] = " ".join(t[:2] + [nd or "-"] + t[3:])
                        if attempt(cand):
                            changed = True
                            break
    return best
