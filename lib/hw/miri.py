"""Running the real crate under Miri for the code the host cannot execute: src/aarch64.rs (aarch64), src/wasm.rs
(wasm32 + simd128, no_std harness), and the portable hasher on big-endian / 32-bit targets."""
import os
import subprocess
from concurrent.futures import ThreadPoolExecutor

from . import common as C
from . import gen as G
from .common import History, Rng, hexs, log

STD_TARGETS = {
    "aarch64-unknown-linux-gnu": "aarch64,1,0,0,0,0,0",
    "s390x-unknown-linux-gnu": "other,1,0,0,0,0,0",
    "powerpc-unknown-linux-gnu": "other,1,0,0,0,0,0",
    "i686-unknown-linux-gnu": "other,1,0,0,0,0,0",
}
WASM_TARGET = "wasm32-unknown-unknown"
WASM_CFG = "wasm32,0,0,0,0,0,1"


def _shards(hists, n):
    n = max(1, min(n, len(hists)))
    out = [[] for _ in range(n)]
    for i, h in enumerate(hists):
        out[i % n].append(h)
    return out


def _run_std_shard(target, hists):
    p = C._write_tmp(C.script_text(hists))
    env = dict(C.ENV)
    env.update({"MIRIFLAGS": "-Zmiri-disable-isolation", "RUSTFLAGS": "--cfg %s" % C.GUARD_CFG,
                "CARGO_TARGET_DIR": os.path.join(C.CACHE, "target-miri")})
    try:
        pr = subprocess.run(["cargo", "+nightly", "miri", "run", "--offline", "--quiet", "--target", target, "--", "run", p],
                            cwd=os.path.join(C.ROOT, "harness"), env=env, stdout=subprocess.PIPE, stderr=subprocess.PIPE, timeout=3000)
    finally:
        os.unlink(p)
    return pr.returncode, pr.stdout.decode("utf-8", "replace"), pr.stderr.decode("utf-8", "replace")


def _run_wasm_shard(k, hists):
    # `cargo miri run` records the build environment of the final crate once per target directory, so each shard
    # has its own target directory AND a fixed script path (the file's content is read when Miri interprets the crate)
    os.makedirs(os.path.join(C.CACHE, "tmp"), exist_ok=True)
    p = os.path.join(C.CACHE, "tmp", "wasm-script-%d.hw" % k)
    with open(p, "w") as f:
        f.write(C.script_text(hists))
    env = dict(C.ENV)
    env.update({"MIRI_NO_STD": "1", "HW_SCRIPT": p, "RUSTFLAGS": "--cfg %s -C target-feature=+simd128" % C.GUARD_CFG,
                "CARGO_TARGET_DIR": os.path.join(C.CACHE, "target-miri-wasm-%d" % k)})
    pr = subprocess.run(["cargo", "+nightly", "miri", "run", "--offline", "--quiet", "--target", WASM_TARGET],
                        cwd=os.path.join(C.ROOT, "harness-wasm"), env=env, stdout=subprocess.PIPE, stderr=subprocess.PIPE, timeout=3000)
    return pr.returncode, pr.stdout.decode("utf-8", "replace"), pr.stderr.decode("utf-8", "replace")


def _collect(runner, hists, nshards):
    """run shards in parallel; a shard that dies is re-run from the history after the one that died"""
    result = {}
    problems = []

    def work(args):
        k, hs = args
        todo = list(hs)
        local = {}
        while todo:
            rc, out, err = runner(k, todo)
            tr = C.split_transcript(out)
            if rc == 0:
                local.update(tr)
                break
            ids = [h.hid for h in todo]
            seen = [i for i in ids if i in tr]
            if not seen:
                # build failure or immediate abort
                return local, "miri run failed (rc=%d): %s" % (rc, err[-1500:])
            last = seen[-1]
            for i in seen[:-1]:
                local[i] = tr[i]
            local[last] = tr[last] + ["CRASH rc=%d %s" % (rc, [l for l in err.splitlines() if "error" in l][:2])]
            todo = todo[ids.index(last) + 1:]
        return local, None

    shards = list(enumerate(_shards(hists, nshards)))
    with ThreadPoolExecutor(max_workers=len(shards)) as ex:
        for local, prob in ex.map(work, shards):
            result.update(local)
            if prob:
                problems.append(prob)
    return result, problems


def build_std(target):
    """one sequential build so that the parallel runs only execute"""
    p = C._write_tmp("H 0\n")
    rc, out, err = _run_std_shard(target, [History(0, [])])
    if rc != 0:
        raise C.BuildError("harness does not build / run under Miri for %s:\n%s" % (target, err[-3000:]))


def std_run(target, hists, nshards=None):
    build_std(target)
    return _collect(lambda k, hs: _run_std_shard(target, hs), hists, nshards or C.NCPU)


def wasm_run(hists, nshards=None):
    n = nshards or min(C.NCPU, 12)
    rc, out, err = _run_wasm_shard(0, [History(0, [])])
    if rc != 0:
        raise C.BuildError("harness-wasm does not build / run under Miri:\n%s" % err[-3000:])
    return _collect(_run_wasm_shard, hists, n)


def compare(ctx, target_name, cfg, hists, itr, problems, oracle, keep, what):
    """model correspondence + oracle for transcripts obtained under Miri (dev profile)"""
    for pr in problems:
        ctx.violation("%s: %s" % (what, pr), None, config=target_name, no_input=True, tag="miri")
    mtr = C.model_run(hists, "dev", cfg)
    fails, mism = [], []
    for h in hists:
        il = itr.get(h.hid, ["MISSING"])
        ctx.note_case(h, nontrivial=h.meta.get("nontrivial", True))
        if il and il[-1].startswith("CRASH"):
            fails.append((h, "Miri aborted the execution: %s" % il[-1]))
            continue
        msg = oracle(h, il)
        if msg:
            fails.append((h, msg))
        a = C.filter_lines(il, keep)
        b = C.filter_lines(mtr.get(h.hid, ["MISSING"]), keep)
        if a != b:
            mism.append((h, "line %d: implementation `%s` / model `%s`" % C.first_diff(a, b)))
    ctx.count("histories[miri %s]" % target_name, len(hists))
    for h, msg in fails[:1]:
        ctx.violation("%s (Miri %s): %s" % (what, target_name, msg), h, config=target_name,
                      extra_lines=["implementation transcript (Miri):"] + itr.get(h.hid, []))
    if not fails and mism:
        h, d = mism[0]
        ctx.violation("correspondence model/implementation no longer holds for %s under Miri %s (%d histories differ; first: %s); "
                      "the property's oracle found no failing input" % (what, target_name, len(mism), d), h, config=target_name,
                      no_input=True, tag="corr",
                      extra_lines=["implementation transcript (Miri):"] + itr.get(h.hid, []) + ["model transcript:"] + mtr.get(h.hid, []))


# ---------------------------------------------------------------------------------------------
def simd_histories(rng, tier, B, quick_n=260, thorough_n=6000):
    """histories for a SIMD backend B in {N, W} next to PortableHash and HighwayHasher in the same process"""
    hists = []
    hid = 0
    lens = list(range(0, 72)) + [95, 96, 97, 127, 128, 129, 200, 257]
    if tier == "thorough":
        lens = list(range(0, 131)) + [200, 255, 256, 257, 1023, 1024, 1025, 4097]
    for n in lens:
        key = G.rand_key(rng)
        d = rng.bytes(n, (n % 3 != 0) * 1)
        w = G.WIDTHS[n % 3]
        cut = rng.below(n + 1)
        lines = ["new 0 %s %s" % (B, G.keystr(key)), "new 1 P %s" % G.keystr(key), "new 2 D %s" % G.keystr(key)]
        for r in (0, 1, 2):
            lines += ["append %d %s" % (r, hexs(d[:cut])), "ckpt %d" % r]
        # checkpoint interchange at this cut: B -> P, P -> B, B -> D
        lines += ["restorefrom 3 P 0", "restorefrom 4 %s 1" % B, "restorefrom 5 D 0"]
        for r in (0, 1, 2, 3, 4, 5):
            lines += ["append %d %s" % (r, hexs(d[cut:]))]
        for r in (0, 1, 2, 3, 4, 5):
            lines += ["clone %d %d" % (10 + r, r), "fin%s %d" % (w, 10 + r)]
        lines += ["fin64 0", "fin64 1", "debug 2"]
        hists.append(History(hid, lines, {"len": n, "cut": cut, "nontrivial": n > 0}))
        hid += 1
    for n in range(1, 32):          # every remainder size with boundary keys (carries of the length injection)
        key = G.boundary_key(rng)
        d = rng.bytes(n, 1)
        lines = ["new 0 %s %s" % (B, G.keystr(key)), "new 1 P %s" % G.keystr(key), "append 0 %s" % hexs(d), "append 1 %s" % hexs(d),
                 "fin256 0", "fin256 1"]
        hists.append(History(hid, lines, {"len": n, "boundary": True}))
        hid += 1
    # the one-shot helpers hashN(data) on a hasher that is NOT fresh: pending bytes from appends, from a restore, from a clone
    for k, (pre, n) in enumerate([(0, 40), (1, 5), (3, 93), (16, 16), (31, 1), (32, 7), (33, 64), (45, 51), (70, 26), (5, 0), (17, 130)][: (6 if tier == "quick" else 11)]):
        key = G.rand_key(rng)
        d = rng.bytes(pre + n, 1)
        w = G.WIDTHS[k % 3]
        lines = ["new 0 %s %s" % (B, G.keystr(key)), "new 1 P %s" % G.keystr(key), "append 0 %s" % hexs(d[:pre]), "append 1 %s" % hexs(d[:pre]),
                 "restorefrom 2 %s 1" % B, "clone 3 0",
                 "hash%s 0 %s" % (w, hexs(d[pre:])), "hash%s 1 %s" % (w, hexs(d[pre:])), "hash%s 2 %s" % (w, hexs(d[pre:])), "hash%s 3 %s" % (w, hexs(d[pre:]))]
        hists.append(History(hid, lines, {"len": pre + n, "oneshot": True, "nontrivial": True}))
        hid += 1
    # checkpoint bytes after a history that wraps the pending buffer (stale bytes behind the new tail), and re-checkpoint after restore
    for k in range(10 if tier == "quick" else 120):
        key = G.rand_key(rng)
        a = 1 + rng.below(31)
        b = (32 - a) + 1 + rng.below(31)
        c = rng.below(3) * (1 + rng.below(40))
        d = rng.bytes(a + b + c, 1)
        lines = ["new 0 %s %s" % (B, G.keystr(key)), "new 1 P %s" % G.keystr(key)]
        for r in (0, 1):
            lines += ["append %d %s" % (r, hexs(d[:a])), "append %d %s" % (r, hexs(d[a:a + b]))] + (["append %d %s" % (r, hexs(d[a + b:]))] if c else [])
        lines += ["ckpt 0", "ckpt 1", "restorefrom 2 %s 0" % B, "ckpt 2", "restorefrom 3 %s 1" % B, "ckpt 3", "fin256 2", "fin256 3"]
        hists.append(History(hid, lines, {"ck2": (a, b, c), "nontrivial": True}))
        hid += 1
    for i in range(40 if tier == "quick" else 1500):   # arbitrary blobs and defaults
        blob, cnt = G.rand_blob(rng)
        d = G.rand_data(rng, rng.below(80))
        lines = ["restore 0 %s %s" % (B, blob.hex()), "restore 1 P %s" % blob.hex(), "ckpt 0", "ckpt 1", "append 0 -", "ckpt 0",
                 "append 0 %s" % hexs(d), "append 1 %s" % hexs(d), "fin128 0", "fin128 1",
                 "default 2 %s" % B, "default 3 P", "append 2 %s" % hexs(d), "append 3 %s" % hexs(d), "fin64 2", "fin64 3"]
        hists.append(History(hid, lines, {"count": cnt}))
        hid += 1
    return hists


def simd_oracle(h, il):
    if any(l == "PANIC" for l in il):
        return "panic"
    ds = [l for l in il if l.split(" ", 1)[0] in ("D64", "D128", "D256")]
    cks = [l for l in il if l.startswith("CK ")]
    if h.meta.get("boundary"):
        if len(ds) == 2 and ds[0] != ds[1]:
            return "SIMD digest %s differs from PortableHash %s" % (ds[0], ds[1])
        return None
    if h.meta.get("oneshot"):
        if len(ds) == 4 and len(set(ds)) != 1:
            return "one-shot hashN on a hasher with pending bytes: SIMD (appended / restored / cloned) and PortableHash give %s" % ds
        return None
    if "cut" in h.meta:
        if len(cks) == 3 and not (cks[0] == cks[1] == cks[2]):
            return "checkpoints at cut %d differ between the SIMD backend, PortableHash and HighwayHasher" % h.meta["cut"]
        if len(ds) == 8:
            if len(set(ds[:6])) != 1:
                return "after checkpoint interchange at cut %d the digests differ: %s" % (h.meta["cut"], ds[:6])
            if ds[6] != ds[7]:
                return "SIMD 64-bit digest %s differs from PortableHash %s" % (ds[6], ds[7])
        return None
    if "ck2" in h.meta:
        if len(cks) == 4 and len(set(cks)) != 1:
            return ("checkpoint bytes after appends of %d, %d, %d bytes: SIMD backend, PortableHash, SIMD restored from its own / from the "
                    "portable checkpoint give %d different byte strings" % (h.meta["ck2"] + (len(set(cks)),)))
        if len(ds) == 2 and ds[0] != ds[1]:
            return "digests after restore differ: %s" % ds
        return None
    if "count" in h.meta:
        if len(cks) == 3 and not (cks[0] == cks[1] == cks[2]):
            return "restore from arbitrary bytes: checkpoints differ / empty append changed the state"
        if len(ds) == 4 and (ds[0] != ds[1] or ds[2] != ds[3]):
            return "restore / default: SIMD %s vs portable %s" % ((ds[0], ds[2]), (ds[1], ds[3]))
    return None


KEEP = ("D64", "D128", "D256", "CK", "PANIC", "FAULT", "TAG", "FIN", "NONE")


def neon(ctx, tier=None):
    rng = Rng(ctx.seed).fork("neon")
    hists = simd_histories(rng, tier or ctx.tier, "N")
    itr, problems = std_run("aarch64-unknown-linux-gnu", hists)
    compare(ctx, "aarch64-unknown-linux-gnu", STD_TARGETS["aarch64-unknown-linux-gnu"], hists, itr, problems, simd_oracle, KEEP,
            "NeonHash vs PortableHash")


def wasm(ctx, tier=None):
    rng = Rng(ctx.seed).fork("wasm")
    hists = simd_histories(rng, tier or ctx.tier, "W")
    itr, problems = wasm_run(hists)
    compare(ctx, WASM_TARGET, WASM_CFG, hists, itr, problems, simd_oracle, KEEP, "WasmHash vs PortableHash")


def simd_backends(ctx):
    """The properties quantified over "every backend" (C05, C06, C11, C14): the histories of C03 / C04 — streaming with a cut, checkpoint
    interchange at the cut, checkpoint bytes after a wrapped buffer, restores from arbitrary bytes, one-shot helpers on non-fresh
    hashers — on the real NeonHash and WasmHash under Miri, next to PortableHash in the same process and against the model."""
    # the quick-sized history set in both tiers (the large sets are C03's and C04's thorough tier)
    neon(ctx, "quick")
    wasm(ctx, "quick")


def portable_targets(ctx):
    """C17: the real PortableHash (and the dispatcher's portable arm) on big-endian and 32-bit targets vs the model"""
    rng = Rng(ctx.seed).fork("c17")
    hists = []
    lens = list(range(0, 40)) + [63, 64, 65, 97, 130] if ctx.tier == "quick" else list(range(0, 131)) + [255, 256, 257, 1025]
    for hid, n in enumerate(lens):
        key = G.rand_key(rng)
        d = rng.bytes(n, 1 if n % 2 else 0)
        cut = rng.below(n + 1)
        w = G.WIDTHS[n % 3]
        blob, _ = G.rand_blob(rng)
        lines = ["new 0 P %s" % G.keystr(key), "append 0 %s" % hexs(d[:cut]), "ckpt 0", "restorefrom 1 D 0", "append 0 %s" % hexs(d[cut:]),
                 "append 1 %s" % hexs(d[cut:]), "finish 0", "fin%s 0" % w, "fin%s 1" % w, "restore 2 P %s" % blob.hex(), "ckpt 2",
                 "hash256 2 %s" % hexs(d[:7]), "default 3 P", "hash64 3 %s" % hexs(d)]
        hists.append(History(hid, lines, {"len": n, "nontrivial": n > 0}))
    targets = ["s390x-unknown-linux-gnu", "i686-unknown-linux-gnu"] if ctx.tier == "quick" else \
        ["s390x-unknown-linux-gnu", "powerpc-unknown-linux-gnu", "i686-unknown-linux-gnu"]

    # the same real code, natively on the little-endian 64-bit host: the reference the other targets must reproduce
    host = C.build_harness("dev")
    host_tr, _ = C.impl_run(host, hists)
    obs = KEEP + ("OK",)

    def oracle(h, il):
        if any(l == "PANIC" for l in il):
            return "panic"
        want = C.filter_lines(host_tr.get(h.hid, []), obs)
        got = C.filter_lines(il, obs)
        if got != want:
            d = C.first_diff(got, want)
            return "the portable hasher gives `%s` on this target but `%s` on the x86_64 host (output line %d)" % (d[1], d[2], d[0])
        return None
    for t in targets:
        itr, problems = std_run(t, hists)
        compare(ctx, t, STD_TARGETS[t], hists, itr, problems, oracle, KEEP + ("OK",), "PortableHash on %s vs the model" % t)


def other_targets(ctx, hists, own_oracle, keep, what, targets=None, limit=60):
    """"For every ..." in a property includes every target the crate builds for.  Run portable/dispatcher-only histories of a
    property under Miri on a big-endian 64-bit target (thorough: also big-endian 32-bit and little-endian 32-bit); verdicts: the
    property's own oracle, and every observable line must equal what the same real code prints natively on the x86_64 host."""
    hists = list(hists)[:limit if ctx.tier == "quick" else limit * 6]
    if not hists:
        return
    if targets is None:
        targets = ["s390x-unknown-linux-gnu"] if ctx.tier == "quick" else \
            ["s390x-unknown-linux-gnu", "powerpc-unknown-linux-gnu", "i686-unknown-linux-gnu"]
    host = C.build_harness("dev")
    host_tr, _ = C.impl_run(host, hists)

    def oracle(h, il):
        msg = own_oracle(h, il)
        if msg:
            return msg
        want = C.filter_lines(host_tr.get(h.hid, []), keep)
        if not want:          # a shrink candidate: no host reference
            return None
        got = C.filter_lines(il, keep)
        if got != want:
            d = C.first_diff(got, want)
            return "on this target the result is `%s`, on the x86_64 host `%s` (output line %d)" % (d[1], d[2], d[0])
        return None
    for t in targets:
        itr, problems = std_run(t, hists)
        compare(ctx, t, STD_TARGETS[t], hists, itr, problems, oracle, keep, "%s (Miri %s)" % (what, t))
