"""Evidence level written for each property (must agree with MANIFEST.json)."""
LEVEL = {p: "proof" for p in ("C%02d" % i for i in range(1, 19))}
