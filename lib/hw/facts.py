"""Regenerated source facts: run tools/srcfacts on /repo, rebuild the theorems over gen/*.v, and when one no longer
checks, name the offending construct (file:line) in the replay."""
import os
import re

from . import common as C
from .check import audit_proofs
from .common import log

TOOL = os.path.join(C.CACHE, "target-tools", "release", "srcfacts")
GEN = os.path.join(C.COQ, "gen")


def regen():
    d = os.path.join(C.ROOT, "tools", "srcfacts")
    lock = os.path.join(d, "Cargo.lock")
    rc, out = C.sh(["cargo", "build", "--release", "--offline", "--quiet"], cwd=d,
                   env={"CARGO_TARGET_DIR": os.path.join(C.CACHE, "target-tools")}, timeout=900)
    if rc != 0:
        raise C.BuildError("srcfacts build failed:\n" + out[-3000:])
    rc, out = C.sh([TOOL, C.REPO, GEN], timeout=120)
    if rc != 0:
        raise C.BuildError("srcfacts failed on the working tree:\n" + out[-3000:])


def parse_facts():
    """-> dict path -> dict(field -> raw string) from gen/SrcFacts.v"""
    s = open(os.path.join(GEN, "SrcFacts.v")).read()
    out = {}
    for m in re.finditer(r"Definition (f_\w+) : file_facts := \{\|(.*?)\|\}\.", s, re.S):
        body = m.group(2)
        fields = {}
        parts = re.split(r"\n  (ff_\w+) := ", "\n" + body)
        for i in range(1, len(parts), 2):
            fields[parts[i]] = parts[i + 1].rstrip().rstrip(";")
        path = fields["ff_path"].strip('"')
        out[path] = fields
    return out


def strings(raw):
    return re.findall(r'"((?:[^"]|"")*)"', raw)


FACT_THEOREMS = {
    # the same tie, the parts each property rests on
    "C05": ("theories/Properties/SourceKernel.v", ["SRC_append", "SRC_packet", "SRC_data_to_lanes", "SRC_update", "SRC_finalize"]),
    "C06": ("theories/Properties/SourceKernel.v", ["SRC_checkpoint", "SRC_from_checkpoint", "SRC_append", "SRC_packet"]),
    "C11": ("theories/Properties/SourceKernel.v", ["SRC_from_checkpoint", "SRC_append", "SRC_packet"]),
    "C14": ("theories/Properties/SourceKernel.v", ["SRC_checkpoint", "SRC_packet"]),
    # the SIMD kernels and wrapper types, translated from the current source, are the hand-written models
    "C02": ("theories/Properties/SourceKernelX86.v",
            ["SRC_sse_kernel", "SRC_sse_remainder_path", "SRC_sse_wrapper", "SRC_sse_from_identity", "SRC_sse_finalize_samples",
             "SRC_avx_kernel", "SRC_avx_wrapper", "SRC_avx_from_identity"]),
    "C03": ("theories/Properties/SourceKernelNeon.v",
            ["SRC_neon_kernel", "SRC_neon_remainder_path", "SRC_neon_wrapper", "SRC_neon_from_identity"]),
    "C04": ("theories/Properties/SourceKernelWasm.v",
            ["SRC_wasm_kernel", "SRC_wasm_remainder_path", "SRC_wasm_helpers", "SRC_wasm_wrapper", "SRC_wasm_from_identity"]),
    # the word-level kernel of src/portable.rs, translated from the current source, is the hand-written model
    "C01": ("theories/Properties/SourceKernel.v",
            ["SRC_new", "SRC_zipper_merge_and_add", "SRC_update", "SRC_permute", "SRC_permute_and_update", "SRC_module_reduction",
             "SRC_rotate_32_by", "SRC_update_lanes", "SRC_data_to_lanes", "SRC_remainder", "SRC_packet", "SRC_update_remainder", "SRC_finalize", "SRC_append", "SRC_checkpoint", "SRC_from_checkpoint"]),
    "C15": ("theories/Properties/FactsC15.v", ["C15_no_global_state"]),
    "C07": ("theories/Properties/FactsC07.v", ["C07_default_impls"]),
    "C12": ("theories/Properties/FactsC12.v", ["C12_adapter_macros"]),
    "C09": ("theories/Properties/FactsC09.v", ["C09_memory_signature"]),
}


def build_fact_file(ctx, vfile, theorems):
    """returns (ok, log). Uses a scratch copy of ctx.proof so the main proof record is kept."""
    regen()
    saved = dict(ctx.proof)
    ctx.proof = {"obligations": 0, "discharged": 0, "theorems": [], "assumptions": {}, "files": [], "checker_cmd": "", "ok": None, "log": ""}
    ok = audit_proofs(ctx, vfile, theorems)
    res = dict(ctx.proof)
    # merge counts into the main record
    if saved.get("ok") is not None or saved.get("theorems"):
        saved["theorems"] = saved.get("theorems", []) + res["theorems"]
        saved["assumptions"].update(res["assumptions"])
        saved["files"] = sorted(set(saved.get("files", []) + res["files"]))
        if res["ok"]:
            saved["obligations"] += len(res["theorems"])
            saved["discharged"] += len(res["theorems"])
        else:
            saved["obligations"] += len(res["theorems"])
            saved["facts_failed"] = True
        saved["checker_cmd"] = (saved.get("checker_cmd", "") + " ; " + res["checker_cmd"]).strip(" ;")
        ctx.proof = saved
    else:
        ctx.proof = res
    return ok, res


def offenders(pid):
    """concrete constructs (file:line or file:identifier) that make the fact theorem false, found by re-reading gen/SrcFacts.v"""
    f = parse_facts()
    out = []
    if pid == "C16":
        path = ["src/traits.rs", "src/key.rs", "src/internal.rs", "src/portable.rs", "src/lib.rs", "src/macros.rs", "src/hash.rs"]
        # plus modules reached from the portable roots
        for p in list(path):
            for u in strings(f.get(p, {}).get("ff_uses", "")):
                if u.startswith("crate::") and p not in ("src/lib.rs", "src/hash.rs"):
                    m = u.split("::")[1]
                    cand = "src/%s.rs" % m
                    if cand in f and cand not in path and not m[0].isupper():
                        path.append(cand)
        for p in path:
            ff = f.get(p)
            if ff is None:
                out.append("%s: file missing" % p)
                continue
            for kind, line in re.findall(r'\("([^"]+)", (\d+)%N\)', ff.get("ff_unsafe", "")):
                out.append("%s:%s: %s" % (p, line, kind))
            for m in strings(ff.get("ff_macros", "")):
                if m not in ("debug_assert", "debug_assert_eq", "impl_write", "impl_hasher", "cfg", "matches", "write", "unreachable", "panic", "assert"):
                    out.append("%s: macro %s! is not known to be safe" % (p, m))
        lib = f.get("src/lib.rs", {})
        if "deny ( unsafe_code )" not in lib.get("ff_inner_attrs", "") and "forbid ( unsafe_code )" not in lib.get("ff_inner_attrs", ""):
            out.append("src/lib.rs: #![deny(unsafe_code)] is gone")
    elif pid == "C17":
        deny = ["from_ne_bytes", "to_ne_bytes", "to_be", "to_le", "from_be", "from_le", "to_be_bytes", "from_be_bytes", "swap_bytes", "transmute",
                "transmute_copy", "read_unaligned", "from_raw_parts", "from_raw_parts_mut", "as_ptr", "as_mut_ptr", "align_to", "align_to_mut", "isize",
                "NativeEndian", "reverse_bits", "size_of_val"]
        for p in ["src/traits.rs", "src/key.rs", "src/internal.rs", "src/portable.rs", "src/lib.rs", "src/macros.rs", "src/hash.rs"]:
            ff = f.get(p, {})
            ids = strings(ff.get("ff_idents", ""))
            for d in deny:
                if d in ids:
                    out.append("%s: uses `%s`" % (p, d))
            for k in strings(ff.get("ff_cfg_keys", "")):
                if k in ("target_endian", "target_pointer_width", "target_has_atomic"):
                    out.append("%s: cfg(%s)" % (p, k))
            out.append("%s: casts now %s" % (p, ff.get("ff_casts", "")))
    elif pid == "C18":
        deny = ["Vec", "vec", "Box", "String", "format", "to_vec", "to_owned", "to_string", "Rc", "Arc", "collections", "Cow", "with_capacity", "alloc",
                "BTreeMap", "BTreeSet", "HashMap", "HashSet", "VecDeque", "LinkedList", "BinaryHeap", "into_boxed_slice", "boxed", "ToString", "ToOwned",
                "extern_crate_alloc", "into_vec", "concat", "join", "repeat", "collect", "BufWriter", "BufReader", "read_to_end", "read_to_string",
                "CString", "OsString", "PathBuf", "thread", "spawn", "println", "eprintln", "print", "dbg"]
        for p, ff in f.items():
            ids = strings(ff.get("ff_idents", "")) + strings(ff.get("ff_macros", ""))
            for d in deny:
                if d in ids:
                    out.append("%s: uses `%s`" % (p, d))
        for p, ff in f.items():
            for sp in strings(ff.get("ff_stdpaths", "")):
                seg = sp.split("::")
                if len(seg) < 2 or seg[0] not in ("core", "std") or seg[1] not in ("arch", "ops", "hash", "io", "fmt", "mem", "hint", "default", "ptr"):
                    out.append("%s: uses `%s` (outside the allocation-free part of the standard library the crate is audited for)" % (p, sp))
        s = open(os.path.join(GEN, "SrcFacts.v")).read()
        m = re.search(r"Definition cargo_deps .*? := (.*?)\.\n", s)
        if m and m.group(1).strip() != "[]":
            out.append("Cargo.toml: non-dev dependencies %s" % m.group(1))
        m = re.search(r"Definition cargo_features .*? := (.*?)\.\n", s)
        if m:
            out.append("Cargo.toml features: %s" % m.group(1))
    elif pid == "C15":
        deny = ["thread_local", "lazy_static", "AtomicUsize", "AtomicBool", "AtomicU8", "AtomicU16", "AtomicU32", "AtomicU64", "AtomicPtr", "AtomicIsize", "Cell",
                "RefCell", "UnsafeCell", "Mutex", "RwLock", "OnceLock", "OnceCell", "LazyLock", "LazyCell", "Once", "SyncUnsafeCell", "Ordering", "atomic", "env",
                "getenv", "SystemTime", "Instant", "RandomState", "random", "getrandom"]
        for p, ff in f.items():
            for st in strings(ff.get("ff_statics", "")):
                out.append("%s: `%s`" % (p, st))
            ids = strings(ff.get("ff_idents", "")) + strings(ff.get("ff_macros", ""))
            for d in deny:
                if d in ids:
                    out.append("%s: uses `%s`" % (p, d))
            for sp in strings(ff.get("ff_stdpaths", "")):
                seg = sp.split("::")
                if len(seg) < 2 or seg[1] not in ("arch", "ops", "hash", "io", "fmt", "mem", "hint", "default", "ptr"):
                    out.append("%s: uses `%s`" % (p, sp))
    return out


SL = "theories/Properties/SourceLevel.v"
SLW = "theories/Properties/SourceLevelWasm.v"
SKW = "theories/Properties/SourceKernelWasmFull.v"
SLN = "theories/Properties/SourceLevelNeon.v"
SKN = "theories/Properties/SourceKernelNeonFull.v"
SKN_ALL = ["SRCN_force_new", "SRCN_zipper_merge", "SRCN_update", "SRCN_permute_and_update", "SRCN_modular_reduction", "SRCN_wrapper",
           "SRCN_from_identity", "SRCN_data_to_lanes", "SRCN_load_multiple_of_four", "SRCN_remainder", "SRCN_rotate_32_by",
           "SRCN_update_remainder", "SRCN_finalize", "SRCN_append", "SRCN_checkpoint", "SRCN_force_from_checkpoint"]
SKW_ALL = ["SRCW_new", "SRCW_zipper_merge", "SRCW_update", "SRCW_permute_and_update", "SRCW_modular_reduction", "SRCW_wrapper", "SRCW_helpers",
           "SRCW_le_u64", "SRCW_unordered_load3", "SRCW_data_to_lanes", "SRCW_load_multiple_of_four", "SRCW_remainder", "SRCW_rotate_32_by", "SRCW_packet",
           "SRCW_update_remainder", "SRCW_finalize", "SRCW_append", "SRCW_checkpoint", "SRCW_from_checkpoint"]
# theorems about the interpreted source text as a whole (sessions of new / append / finalize / checkpoint / from_checkpoint)
EXTRA_THEOREMS = {
    "C01": [(SL, ["SRC_source_is_highwayhash", "SRC_source_continue"])],
    # the whole of src/wasm.rs, translated from the current source, is the model Wasm.v; and the interpreted wasm.rs computes
    # HighwayHash / agrees with the interpreted portable.rs
    # the whole of src/aarch64.rs likewise (Neon.v), raw-pointer loads included
    "C03": [(SKN, SKN_ALL), (SLN, ["SRCN_source_is_highwayhash", "SRCN_source_agrees_with_portable_source", "SRCN_source_agrees_with_wasm_source", "SRCN_source_continue",
                                   "SRCN_source_checkpoint_interchangeable", "SRCN_source_restore_total"])],
    "C04": [(SKW, SKW_ALL), (SLW, ["SRCW_source_is_highwayhash", "SRCW_source_agrees_with_portable_source", "SRCW_source_continue",
                                   "SRCW_source_checkpoint_interchangeable", "SRCW_source_restore_total"])],
    "C05": [(SL, ["SRC_source_streaming_invariance", "SRC_source_continue"]),
            (SLW, ["SRCW_source_streaming_invariance"]), (SLN, ["SRCN_source_streaming_invariance"]),
            ("theories/Properties/FactsC05.v", ["C05_provided_methods", "C05_append_text_shared"])],
    "C06": [(SL, ["SRC_source_checkpoint_transparent", "SRC_source_restore_total"]),
            (SLW, ["SRCW_source_checkpoint_transparent", "SRCW_source_checkpoint_interchangeable"]),
            (SLN, ["SRCN_source_checkpoint_transparent", "SRCN_source_checkpoint_interchangeable"])],
    "C08": [(SL, ["SRC_source_is_highwayhash", "SRC_source_continue", "SRC_source_restore_total", "SRC_source_checkpoint_canonical"]),
            (SLW, ["SRCW_source_is_highwayhash", "SRCW_source_continue"]), (SLN, ["SRCN_source_is_highwayhash", "SRCN_source_continue"])],
    "C11": [(SL, ["SRC_source_restore_total"]), (SLW, ["SRCW_source_restore_total"]), (SLN, ["SRCN_source_restore_total"])],
    "C12": [("theories/Properties/FactsC05.v", ["C05_provided_methods"])],
    "C13": [("theories/Properties/FactsC05.v", ["C05_provided_methods"])],
    "C14": [(SL, ["SRC_source_checkpoint_canonical"]), (SLW, ["SRCW_source_checkpoint_canonical", "SRCW_source_checkpoint_interchangeable"]),
            (SLN, ["SRCN_source_checkpoint_canonical", "SRCN_source_checkpoint_interchangeable"])],
}


def check(ctx, pid):
    """Theorems over regenerated files (facts, translated source) for a property whose main proof is about the model."""
    allok = True
    for vfile, thms in ([FACT_THEOREMS[pid]] if pid in FACT_THEOREMS else []) + EXTRA_THEOREMS.get(pid, []):
        ok, res = build_fact_file(ctx, vfile, thms)
        if not ok and not ctx.violations:
            off = offenders(pid) if pid in ("C15",) else []
            ctx.violation("regenerated source facts: theorem %s no longer checks (%s)\n%s" % (thms, res.get("failed_at"), "\n".join(off[:20]) or res.get("log", "")[-800:]),
                          None, no_input=True, tag="facts", extra_lines=off[:40])
        allok = allok and ok
    return allok


def check_memsig(ctx):
    return check(ctx, "C09")
